// Package engine runs programs against the real go-txfile engine on a
// simulated disk, keeps the sequential specification (a page store) next to it
// and emits an annotated trace for the Lean model.
package engine

import (
	"bytes"
	"encoding/binary"
	"fmt"
	"sort"
	"strings"
	"sync/atomic"

	txfile "github.com/elastic/go-txfile"
	"github.com/elastic/go-txfile/txerr"

	"verifharness/simdisk"
)

// RNG is splitmix64; every random choice of a run derives from one state.
type RNG struct{ S uint64 }

func (r *RNG) Next() uint64 {
	r.S += 0x9E3779B97F4A7C15
	z := r.S
	z = (z ^ (z >> 30)) * 0xBF58476D1CE4E5B9
	z = (z ^ (z >> 27)) * 0x94D049BB133111EB
	return z ^ (z >> 31)
}
func (r *RNG) Intn(n int) int {
	if n <= 0 {
		return 0
	}
	return int(r.Next() % uint64(n))
}
func (r *RNG) Chance(pct int) bool { return r.Intn(100) < pct }

// Content is the abstract content of a page: the id it was written for and a
// stamp for each half of the page.
type Content struct{ ID, S1, S2 uint64 }

func (c Content) String() string { return fmt.Sprintf("%d/%d/%d", c.ID, c.S1, c.S2) }

// Render produces the concrete bytes of a content value.
func Render(c Content, pageSize int) []byte {
	b := make([]byte, pageSize)
	fillHalf(b[:pageSize/2], c.ID, c.S1)
	fillHalf(b[pageSize/2:], c.ID, c.S2)
	return b
}

func fillHalf(b []byte, id, s uint64) {
	if s == 0 {
		for i := range b {
			b[i] = 0
		}
		return
	}
	binary.LittleEndian.PutUint64(b[0:], id)
	binary.LittleEndian.PutUint64(b[8:], s)
	for i := 2; i*8+8 <= len(b); i++ {
		binary.LittleEndian.PutUint64(b[i*8:], s*uint64(2*i+1)+id)
	}
}

func parseHalf(b []byte) (id, s uint64, ok bool) {
	id = binary.LittleEndian.Uint64(b[0:])
	s = binary.LittleEndian.Uint64(b[8:])
	if s == 0 {
		for _, x := range b {
			if x != 0 {
				return 0, 0, false
			}
		}
		return 0, 0, true
	}
	for i := 2; i*8+8 <= len(b); i++ {
		if binary.LittleEndian.Uint64(b[i*8:]) != s*uint64(2*i+1)+id {
			return id, s, false
		}
	}
	return id, s, true
}

// Parse recovers the abstract content of a page; ok is false for garbage.
func Parse(b []byte) (c Content, ok bool) {
	h := len(b) / 2
	id1, s1, ok1 := parseHalf(b[:h])
	id2, s2, ok2 := parseHalf(b[h:])
	c = Content{S1: s1, S2: s2}
	if s1 != 0 {
		c.ID = id1
	} else {
		c.ID = id2
	}
	if s1 != 0 && s2 != 0 && id1 != id2 {
		return c, false
	}
	return c, ok1 && ok2
}

// Config describes the file a session runs on.
type Config struct {
	PageSize uint32
	MaxPages uint64 // 0 = unbounded
	MaxSlack uint64 // bytes added to MaxPages*PageSize (< PageSize): a limit that is not a multiple of the page size
	InitMeta uint32
	Prealloc bool
	Sync     txfile.SyncMode
}

func (c Config) Options() txfile.Options {
	if c.MaxPages == 0 {
		c.MaxSlack = 0 // unbounded
	}
	return txfile.Options{
		MaxSize:      c.MaxPages*uint64(c.PageSize) + c.MaxSlack,
		PageSize:     c.PageSize,
		InitMetaArea: c.InitMeta,
		Prealloc:     c.Prealloc,
		Sync:         c.Sync,
	}
}

// Failure is a property violation observed on the real implementation.
type Failure struct {
	Prop string `json:"prop"`
	Kind string `json:"kind"`
	Msg  string `json:"msg"`
	Step int    `json:"step"`
}

// TxOpts are the per transaction options used by the harness.
type TxOpts struct {
	Overflow bool
	Grow     int
	WAL      uint
}

// Session is one file plus its specification state.
type Session struct {
	Cfg  Config
	Disk *simdisk.Disk
	F    *txfile.File

	// specification: committed store
	Committed map[uint64]Content
	Root      uint64

	// running write transaction
	Tx      *txfile.Tx
	TxOpts  TxOpts
	Overlay map[uint64]*Content // written or allocated (nil = allocated, unwritten) in tx
	Loaded  map[uint64]bool     // Load()ed new pages (zero content readable)
	Freed   map[uint64]bool
	Alloced map[uint64]bool
	TxRoot  uint64
	Pages   map[uint64]*txfile.Page
	Flushed map[uint64]bool

	hookLog []string // recorded choices since last drain

	Trace    bytes.Buffer
	NoTrace  bool
	Step     int
	Failures []Failure
	Markers  map[string]int
	OpCount  map[string]int
	ErrCount map[string]int
	stamp    uint64

	CommitN         int            // number of commit attempts (for disk marks)
	History         []SpecState    // committed spec states, History[0] = fresh file
	Reach           map[int]string // commit number -> physical pages (with content hashes) the committed state depends on
	resized         bool           // max size was changed on a reopen
	SparseCrash     bool           // CrashCheck samples the boundaries of this (long) log
	intoFreeTail    bool           // ShrinkBelowFileSize: lower the limit into the free region at the end of the data area
	boundPages      uint64         // session-only limit used when opening an unbounded file (0: none)
	extentLimit     uint64         // C14: no write beyond this after a shrink (0 = unchecked)
	LastCommit      string         // result of the last Commit
	FaultKind       string         // kind of I/O call a fault plan targets (fault check)
	IOFault         bool           // set by fault plans when an injected fault hit
	finalSyncFailAt int            // log length when a commit last failed only in its final sync
	txLogStart      int            // length of the disk log when the running transaction began (vfs line)
	txFault         bool           // an injected fault hit during the running transaction (no vfs line then)
}

// Current is the session receiving trace points (one per process at a time).
var Current *Session

// LastOp names the library call in progress (for hang reports).
var LastOp atomic.Value

func init() {
	txfile.VerifSetHook(func(name string, args ...uint64) {
		if s := Current; s != nil {
			switch name {
			case "flush", "ckpt":
				s.hookLog = append(s.hookLog, fmt.Sprintf("%s:%d:%d", name, args[0], args[1]))
			}
		}
		if h := PointHook; h != nil {
			h(name, args...)
		}
	})
}

// PointHook, if set, receives every trace point (for schedulers).
var PointHook func(name string, args ...uint64)

// NewSession creates a session on an empty disk.
func NewSession(cfg Config) *Session {
	s := &Session{Cfg: cfg, Disk: simdisk.New("simfile"), Committed: map[uint64]Content{},
		Markers: map[string]int{}, OpCount: map[string]int{}, ErrCount: map[string]int{}}
	return s
}

func (s *Session) fail(prop, kind, format string, args ...interface{}) {
	s.Failures = append(s.Failures, Failure{Prop: prop, Kind: kind, Msg: fmt.Sprintf(format, args...), Step: s.Step})
	// C14 quantifies over "any further history" after a resize: what goes wrong with the data or the
	// allocator of a resized file is C14's business as well
	// C03 quantifies over "transactions that follow a rolled-back or failed one": what the read-back
	// oracle finds in a fault program (labelled for C08) is C03's business as well
	if prop == "C08" && (kind == "root" || strings.HasPrefix(kind, "ro-read") || strings.HasPrefix(kind, "tx-read")) {
		s.Failures = append(s.Failures, Failure{Prop: "C03", Kind: kind + "-after-failed-tx", Msg: "in a history with failed transactions (injected I/O errors): " + fmt.Sprintf(format, args...), Step: s.Step})
	}
	if s.resized && (prop == "C03" || prop == "C04" || prop == "C10") {
		s.Failures = append(s.Failures, Failure{Prop: "C14", Kind: kind + "-after-resize", Msg: "after a change of the max size: " + fmt.Sprintf(format, args...), Step: s.Step})
	}
}

func (s *Session) emit(format string, args ...interface{}) {
	s.Step++
	if s.NoTrace {
		return
	}
	fmt.Fprintf(&s.Trace, format, args...)
	s.Trace.WriteByte('\n')
}

func (s *Session) mark(m string) { s.Markers[m]++ }

// Mark counts a scenario marker (for callers outside the package).
func (s *Session) Mark(m string) { s.mark(m) }

// ErrKind maps an error to a small canonical enum: top kind[/first nested kind].
func ErrKind(err error) string {
	if err == nil {
		return "ok"
	}
	var kinds []string
	txerr.Iter(err, func(e error) bool {
		type wk interface{ Kind() error }
		if k, ok := e.(wk); ok && k.Kind() != nil {
			name := kindName(k.Kind())
			if len(kinds) == 0 || kinds[len(kinds)-1] != name {
				kinds = append(kinds, name)
			}
		}
		return true
	})
	if len(kinds) == 0 {
		if err == simdisk.ErrInjected || strings.Contains(err.Error(), "injected") {
			return "err:io"
		}
		return "err:other"
	}
	return "err:" + strings.Join(kinds, "/")
}

func kindName(k error) string {
	switch k {
	case txfile.OutOfMemory:
		return "oom"
	case txfile.InvalidOp:
		return "invalidop"
	case txfile.InvalidPageID:
		return "pageid"
	case txfile.InvalidParam:
		return "param"
	case txfile.TxFinished:
		return "finished"
	case txfile.TxReadOnly:
		return "readonly"
	case txfile.TxCommitFail:
		return "commitfail"
	case txfile.TxRollbackFail:
		return "rollbackfail"
	case txfile.TxFailed:
		return "txfailed"
	case txfile.InternalError:
		return "internal"
	case txfile.InitFailed:
		return "initfailed"
	case txfile.InvalidMetaPage:
		return "invalidmeta"
	case txfile.InvalidConfig:
		return "config"
	case txfile.FileCreationFailed:
		return "createfailed"
	case txfile.InvalidFileSize:
		return "filesize"
	}
	return strings.ReplaceAll(strings.ToLower(k.Error()), " ", "-")
}

// guard runs fn and converts a panic into a failure + "panic" result.
func (s *Session) guard(op string, fn func() error) (res string) {
	defer func() {
		if r := recover(); r != nil {
			msg := fmt.Sprint(r)
			if len(msg) > 200 {
				msg = msg[:200]
			}
			s.fail("C08", "panic", "%s panicked: %s", op, msg)
			res = "panic"
		}
	}()
	s.OpCount[op]++
	LastOp.Store("txfile " + op)
	r := ErrKind(fn())
	if r != "ok" {
		s.ErrCount[op+"="+r]++
	}
	return r
}

// ---------------------------------------------------------------------------
// snapshots in canonical form

func runsOf(ids []uint64) string {
	if len(ids) == 0 {
		return "-"
	}
	var sb strings.Builder
	i := 0
	for i < len(ids) {
		j := i
		for j+1 < len(ids) && ids[j+1] == ids[j]+1 {
			j++
		}
		if sb.Len() > 0 {
			sb.WriteByte(',')
		}
		if i == j {
			fmt.Fprintf(&sb, "%d", ids[i])
		} else {
			fmt.Fprintf(&sb, "%d-%d", ids[i], ids[j])
		}
		i = j + 1
	}
	return sb.String()
}

// RegionIDs expands regions into a sorted id list.
func RegionIDs(regs [][2]uint64) []uint64 {
	var ids []uint64
	for _, r := range regs {
		for i := uint64(0); i < r[1]; i++ {
			ids = append(ids, r[0]+i)
		}
	}
	sort.Slice(ids, func(i, j int) bool { return ids[i] < ids[j] })
	return ids
}

func pairs(m [][2]uint64) string {
	if len(m) == 0 {
		return "-"
	}
	var sb strings.Builder
	for i, e := range m {
		if i > 0 {
			sb.WriteByte(',')
		}
		fmt.Fprintf(&sb, "%d:%d", e[0], e[1])
	}
	return sb.String()
}

// SnapLine renders the file (and transaction) allocation state canonically.
func (s *Session) SnapLine() string {
	fs := s.F.VerifSnapshot()
	var sb strings.Builder
	fmt.Fprintf(&sb, "S max=%d de=%d me=%d mt=%d df=%s mf=%s fp=%s wp=%s map=%s",
		fs.MaxPages, fs.DataEnd, fs.MetaEnd, fs.MetaTotal,
		runsOf(RegionIDs(fs.DataFree)), runsOf(RegionIDs(fs.MetaFree)),
		runsOf(RegionIDs(fs.FreelistPages)), runsOf(RegionIDs(fs.WalPages)), pairs(fs.Mapping))
	if s.Tx != nil && s.Tx.Active() {
		ts := s.Tx.VerifTxSnapshot()
		fmt.Fprintf(&sb, " | da=%s dn=%s dfr=%s ma=%s mn=%s mfr=%s mv=%s wn=%s wf=%s",
			runsOf(ts.DataAllocated), runsOf(ts.DataNew), runsOf(ts.DataFreed),
			runsOf(ts.MetaAllocated), runsOf(ts.MetaNew), runsOf(ts.MetaFreed),
			runsOf(RegionIDs(ts.MoveToMeta)), pairs(ts.WalNew), runsOf(ts.WalFree))
	}
	return sb.String()
}

func (s *Session) emitSnap() {
	if s.NoTrace || s.F == nil {
		return
	}
	s.Trace.WriteString(s.SnapLine())
	s.Trace.WriteByte('\n')
}

// ---------------------------------------------------------------------------
// operations

// Open opens (or creates) the file with the session's configuration.
func (s *Session) Open() string {
	opts := s.Cfg.Options()
	if s.Cfg.MaxPages == 0 && s.boundPages > 0 {
		opts.MaxSize = s.boundPages * uint64(s.Cfg.PageSize) // session limit on an unbounded file
	}
	return s.OpenWith(opts, "open")
}

// OpenWith opens with explicit options.
func (s *Session) OpenWith(opts txfile.Options, label string) string {
	Current = s
	s.Disk.Reopen()
	var f *txfile.File
	res := s.guard(label, func() error {
		var err error
		f, err = txfile.VerifOpen(s.Disk, opts)
		return err
	})
	s.emit("%s ps=%d maxsize=%d meta=%d prealloc=%v flags=%d => %s", label, opts.PageSize, opts.MaxSize, opts.InitMetaArea, opts.Prealloc, uint64(opts.Flags), res)
	if res == "ok" {
		s.F = f
		if len(s.History) == 0 {
			s.History = append(s.History, s.specState(0))
			s.Disk.Mark("created")
			s.recordReach(0)
		}
		s.emitSnap()
	} else {
		s.F = nil
	}
	return res
}

// CloseFile closes the file.
func (s *Session) CloseFile() string {
	if s.F == nil {
		return "nofile"
	}
	f := s.F
	res := s.guard("closefile", func() error { return f.Close() })
	s.F = nil
	s.emit("closefile => %s", res)
	return res
}

func (s *Session) nextStamp() uint64 { s.stamp++; return s.stamp }

// Begin starts a write transaction.
func (s *Session) Begin(o TxOpts) string {
	var tx *txfile.Tx
	res := s.guard("begin", func() error {
		var err error
		tx, err = s.F.BeginWith(txfile.TxOptions{EnableOverflowArea: o.Overflow, MetaAreaGrowPercentage: o.Grow, WALLimit: o.WAL})
		return err
	})
	s.emit("begin ovf=%v grow=%d wal=%d => %s", o.Overflow, o.Grow, o.WAL, res)
	if res != "ok" {
		return res
	}
	s.Tx, s.TxOpts = tx, o
	s.Overlay, s.Freed, s.Alloced = map[uint64]*Content{}, map[uint64]bool{}, map[uint64]bool{}
	s.Loaded, s.Flushed = map[uint64]bool{}, map[uint64]bool{}
	s.Pages = map[uint64]*txfile.Page{}
	s.TxRoot = s.Root
	s.hookLog = s.hookLog[:0]
	s.txLogStart, s.txFault = s.Disk.LogLen(), false
	if o.Overflow {
		s.mark("overflow-tx")
	}
	return res
}

// internalPages returns the ids the file uses internally right now.
func internalPages(fs txfile.VerifSnap) map[uint64]string {
	m := map[uint64]string{0: "header", 1: "header"}
	for _, id := range RegionIDs(fs.MetaFree) {
		m[id] = "metafree"
	}
	for _, id := range RegionIDs(fs.FreelistPages) {
		m[id] = "freelistpage"
	}
	for _, id := range RegionIDs(fs.WalPages) {
		m[id] = "walmappage"
	}
	for _, e := range fs.Mapping {
		m[e[1]] = "walpage"
	}
	return m
}

// Alloc allocates n pages and checks exclusive ownership (C04).
func (s *Session) Alloc(n int) (ids []uint64, res string) {
	before := s.F.VerifSnapshot()
	res = s.guard("alloc", func() error {
		if n == 1 {
			p, err := s.Tx.Alloc()
			if err != nil {
				return err
			}
			s.Pages[uint64(p.ID())] = p
			ids = append(ids, uint64(p.ID()))
			return nil
		}
		ps, err := s.Tx.AllocN(n)
		if err != nil {
			return err
		}
		for _, p := range ps {
			s.Pages[uint64(p.ID())] = p
			ids = append(ids, uint64(p.ID()))
		}
		return nil
	})
	var sb strings.Builder
	for _, id := range ids {
		fmt.Fprintf(&sb, " %d", id)
	}
	s.emit("alloc %d => %s%s", n, res, sb.String())
	if res == "ok" {
		internal := internalPages(before)
		if s.Tx.Active() {
			ts := s.Tx.VerifTxSnapshot()
			for _, e := range ts.WalNew {
				internal[e[1]] = "walpage(tx)"
			}
			for _, id := range ts.MetaAllocated {
				if _, ok := internal[id]; !ok {
					internal[id] = "metaalloc(tx)"
				}
			}
		}
		seen := map[uint64]bool{}
		if len(ids) != n {
			s.fail("C04", "alloc-count", "alloc %d returned %d pages", n, len(ids))
		}
		for _, id := range ids {
			switch {
			case id < 2:
				s.fail("C04", "alloc-header", "alloc returned header page %d", id)
			case seen[id]:
				s.fail("C04", "alloc-dup", "alloc returned page %d twice in one call", id)
			case s.Freed[id]:
				s.fail("C04", "alloc-freed", "alloc returned page %d freed in this transaction (still live in committed state)", id)
			case s.Alloced[id]:
				s.fail("C04", "alloc-live-tx", "alloc returned page %d that is already live in the running transaction", id)
			case internal[id] != "":
				s.fail("C04", "alloc-internal", "alloc returned page %d used internally (%s)", id, internal[id])
			default:
				if _, live := s.Committed[id]; live {
					s.fail("C04", "alloc-live", "alloc returned page %d that is live in the committed state", id)
				}
			}
			seen[id] = true
			s.Alloced[id] = true
			s.Overlay[id] = nil
			delete(s.Loaded, id)
			delete(s.Flushed, id)
			if id >= before.DataEnd {
				s.mark("alloc-from-end")
			} else {
				s.mark("alloc-from-freelist")
			}
		}
		if s.Cfg.MaxPages > 0 && !s.resized {
			for _, id := range ids {
				if id >= s.Cfg.MaxPages && before.MaxPages == s.Cfg.MaxPages {
					s.fail("C11", "alloc-beyond-max", "alloc returned page %d beyond max pages %d", id, s.Cfg.MaxPages)
				}
			}
		}
	} else if strings.Contains(res, "oom") {
		s.mark("alloc-oom")
	}
	s.emitSnap()
	return ids, res
}

func (s *Session) page(id uint64) (*txfile.Page, string) {
	if p := s.Pages[id]; p != nil {
		return p, "ok"
	}
	var p *txfile.Page
	res := s.guard("page", func() error {
		var err error
		p, err = s.Tx.Page(txfile.PageID(id))
		return err
	})
	s.emit("page %d => %s", id, res)
	if res == "ok" {
		s.Pages[id] = p
	}
	return p, res
}

// specContent is what the running transaction must read for a page.
func (s *Session) specContent(id uint64) (Content, bool) {
	if s.Freed[id] {
		return Content{}, false
	}
	if c, ok := s.Overlay[id]; ok {
		if c == nil {
			if s.Loaded[id] {
				return Content{}, true
			}
			return Content{}, false
		}
		return *c, true
	}
	c, ok := s.Committed[id]
	return c, ok
}

// Write writes new content to a page. mode: full | lo | hi.
func (s *Session) Write(id uint64, mode string) string {
	p, res := s.page(id)
	if res != "ok" {
		return res
	}
	ps := int(s.Cfg.PageSize)
	st := s.nextStamp()
	old, _ := s.specContent(id)
	if old.ID == ^uint64(0) {
		mode = "full" // unspecified old content: only full writes give a defined result
	}
	var nc Content
	res = s.guard("write-"+mode, func() error {
		switch mode {
		case "full":
			nc = Content{ID: id, S1: st, S2: st}
			return p.SetBytes(Render(nc, ps))
		case "lo":
			nc = Content{ID: id, S1: st, S2: old.S2}
			return p.SetBytes(Render(Content{ID: id, S1: st}, ps)[:ps/2])
		default: // hi: Load, modify in place, MarkDirty
			if err := p.Load(); err != nil {
				return err
			}
			b, err := p.Bytes()
			if err != nil {
				return err
			}
			nc = Content{ID: id, S1: old.S1, S2: st}
			copy(b[ps/2:], Render(Content{ID: id, S2: st}, ps)[ps/2:])
			return p.MarkDirty()
		}
	})
	s.emit("write %d %s %d => %s", id, mode, st, res)
	if res == "ok" {
		c := nc
		s.Overlay[id] = &c
		if mode != "full" {
			s.mark("partial-write")
		}
	}
	return res
}

// Load calls Page.Load (makes a new page readable as zeroes).
func (s *Session) Load(id uint64) string {
	p, res := s.page(id)
	if res != "ok" {
		return res
	}
	res = s.guard("load", func() error { return p.Load() })
	s.emit("load %d => %s", id, res)
	if res == "ok" {
		if c, ok := s.Overlay[id]; ok && c == nil {
			s.Loaded[id] = true
		}
	}
	return res
}

// Read reads a page inside the running write transaction and compares with the spec (C03).
func (s *Session) Read(id uint64) string {
	if c, ok := s.Committed[id]; ok && c.ID == ^uint64(0) {
		if _, own := s.Overlay[id]; !own && !s.Freed[id] {
			return "skipped" // allocated by an earlier transaction but never written: no defined content
		}
	}
	p, res := s.page(id)
	if res != "ok" {
		return res
	}
	var got Content
	var parsed bool
	res = s.guard("read", func() error {
		b, err := p.Bytes()
		if err != nil {
			return err
		}
		got, parsed = Parse(b)
		return nil
	})
	want, readable := s.specContent(id)
	if res == "ok" {
		s.emit("read %d => ok %s", id, got)
		if !parsed {
			s.fail("C03", "read-garbage", "write tx read of page %d returned unparsable bytes (near %s)", id, got)
		} else if !readable {
			// reading is allowed by the implementation where the spec has no content; only flag freed pages
			if s.Freed[id] {
				s.fail("C15", "read-freed", "read of freed page %d succeeded", id)
			}
		} else if want.ID == ^uint64(0) {
			// allocated in an earlier transaction and never written: unspecified
		} else if got != want {
			s.fail("C03", "read-own", "write tx read page %d = %s, expected %s", id, got, want)
		}
	} else {
		s.emit("read %d => %s", id, res)
		if readable && res != "panic" {
			s.fail("C03", "read-err", "write tx read of readable page %d failed: %s", id, res)
		}
	}
	return res
}

// Free frees a page.
func (s *Session) Free(id uint64) string {
	p, res := s.page(id)
	if res != "ok" {
		return res
	}
	dirtyBefore := p.Dirty()
	res = s.guard("free", func() error { return p.Free() })
	s.emit("free %d => %s", id, res)
	if res == "ok" {
		if s.Alloced[id] {
			delete(s.Alloced, id)
			delete(s.Overlay, id)
			s.mark("free-new-page")
		} else {
			s.Freed[id] = true
			delete(s.Overlay, id)
			s.mark("free-committed-page")
		}
		delete(s.Pages, id)
	} else if dirtyBefore {
		s.mark("free-dirty-rejected")
	}
	s.emitSnap()
	return res
}

func (s *Session) drainHook() string {
	if len(s.hookLog) == 0 {
		return "-"
	}
	r := strings.Join(s.hookLog, ",")
	s.hookLog = s.hookLog[:0]
	return r
}

func (s *Session) noteFlushMarks(rec string) {
	for _, e := range strings.Split(rec, ",") {
		var id, od uint64
		if n, _ := fmt.Sscanf(e, "flush:%d:%d", &id, &od); n == 2 {
			if id != od {
				s.mark("wal-redirect")
			} else if _, live := s.Committed[id]; live {
				s.mark("wal-write-back")
			}
			s.Flushed[id] = true
		}
		if strings.HasPrefix(e, "ckpt:") {
			s.mark("checkpoint-copy")
		}
	}
}

// FlushPage flushes one page.
func (s *Session) FlushPage(id uint64) string {
	p, res := s.page(id)
	if res != "ok" {
		return res
	}
	res = s.guard("flushpage", func() error { return p.Flush() })
	rec := s.drainHook()
	s.noteFlushMarks(rec)
	s.emit("flushpage %d [%s] => %s", id, rec, res)
	s.emitSnap()
	return res
}

// Flush flushes all dirty pages.
func (s *Session) Flush() string {
	res := s.guard("flush", func() error { return s.Tx.Flush() })
	rec := s.drainHook()
	s.noteFlushMarks(rec)
	s.emit("flush [%s] => %s", rec, res)
	s.emitSnap()
	return res
}

// Checkpoint runs CheckpointWAL.
func (s *Session) Checkpoint() string {
	res := s.guard("checkpoint", func() error { return s.Tx.CheckpointWAL() })
	rec := s.drainHook()
	s.noteFlushMarks(rec)
	s.emit("checkpoint [%s] => %s", rec, res)
	s.emitSnap()
	return res
}

// SetRoot sets the root.
func (s *Session) SetRoot(id uint64) {
	s.guard("setroot", func() error { s.Tx.SetRoot(txfile.PageID(id)); return nil })
	s.TxRoot = id
	s.emit("setroot %d => ok", id)
}

// applyCommit folds the transaction into the committed spec.
func (s *Session) applyCommit() {
	for id := range s.Freed {
		delete(s.Committed, id)
	}
	for id, c := range s.Overlay {
		if c != nil {
			s.Committed[id] = *c
		} else {
			// allocated but never written: live with unspecified content
			s.Committed[id] = Content{ID: ^uint64(0)}
		}
	}
	s.Root = s.TxRoot
}

func (s *Session) endTx() {
	s.IOFault = false
	s.Tx = nil
	s.Overlay, s.Freed, s.Alloced, s.Pages, s.Loaded, s.Flushed = nil, nil, nil, nil, nil, nil
}

// Commit commits the running transaction.
func (s *Session) Commit() string {
	s.CommitN++
	n := s.CommitN
	before := s.F.VerifSnapshot()
	s.Disk.Mark(fmt.Sprintf("commit-start %d", n))
	res := s.guard("commit", func() error { return s.Tx.Commit() })
	s.Disk.Mark(fmt.Sprintf("commit-end %d %s", n, res))
	rec := s.drainHook()
	s.noteFlushMarks(rec)
	if s.IOFault && res != "ok" {
		s.emit("commit [%s] => %s !io", rec, res) // failed because of an injected I/O fault
	} else {
		s.emit("commit [%s] => %s", rec, res)
	}
	s.LastCommit = res
	if res == "ok" {
		s.applyCommit()
		s.History = append(s.History, s.specState(n))
		s.recordReach(n)
		after := s.F.VerifSnapshot()
		if len(after.Mapping) < len(before.Mapping) && len(before.Mapping) > 0 {
			s.mark("wal-shrunk")
		}
		if after.MetaTotal > before.MetaTotal {
			s.mark("meta-grow")
		}
		if len(RegionIDs(after.FreelistPages)) > 1 {
			s.mark("freelist>1page")
		}
		if after.MappedLen != before.MappedLen {
			s.mark("remap")
		}
		if after.MetaEnd > after.MaxPages && after.MaxPages > 0 {
			s.mark("overflow-area-in-use")
		}
	} else {
		s.mark("commit-failed")
	}
	s.emitVfs(res)
	s.endTx()
	s.emitSnap()
	return res
}

// emitVfs writes the file-level operations the finished transaction issued (from its Begin to the end of
// Commit / Rollback / Close): `w<page>` per page written, `h<slot>` per header write, `s` per sync,
// `t<pages>` per truncate. The Lean driver compares them with the vfs trace of the engine model
// (Model/EngineTrace.lean - the traces the crash theorems of C01 / C08 / C14 are about). Not emitted when an
// injected I/O fault hit during the transaction, or when the log is not kept.
func (s *Session) emitVfs(res string) {
	if s.IOFault || s.txFault || s.Disk == nil || !s.Disk.KeepLog {
		return
	}
	log := s.Disk.LogCopy()
	if s.txLogStart > len(log) {
		return
	}
	ps := int64(s.Cfg.PageSize)
	var toks []string
	for _, op := range log[s.txLogStart:] {
		switch op.Kind {
		case simdisk.OpSync:
			toks = append(toks, "s")
		case simdisk.OpSyncFail:
			toks = append(toks, "sf")
		case simdisk.OpTruncate:
			toks = append(toks, fmt.Sprintf("t%d", (op.Off+ps-1)/ps))
		case simdisk.OpWrite:
			if len(op.Data) == 84 && (op.Off == 0 || op.Off == ps) {
				toks = append(toks, fmt.Sprintf("h%d", op.Off/ps))
				continue
			}
			for o := int64(0); o < int64(len(op.Data)); o += ps {
				toks = append(toks, fmt.Sprintf("w%d", (op.Off+o)/ps))
			}
		}
	}
	v := "-"
	if len(toks) > 0 {
		v = strings.Join(toks, ",")
	}
	s.emit("vfs %s => %s", v, res)
	s.mark("vfs-trace")
}

// Rollback aborts the running transaction (how: rollback | close).
func (s *Session) Rollback(how string) string {
	res := s.guard(how, func() error {
		if how == "close" {
			return s.Tx.Close()
		}
		return s.Tx.Rollback()
	})
	s.drainHook()
	s.emit("%s => %s", how, res)
	s.mark("abort-" + how)
	s.emitVfs(res)
	s.endTx()
	s.emitSnap()
	return res
}

// LiveIDs returns the committed live page ids, sorted.
func (s *Session) LiveIDs() []uint64 {
	ids := make([]uint64, 0, len(s.Committed))
	for id := range s.Committed {
		ids = append(ids, id)
	}
	sort.Slice(ids, func(i, j int) bool { return ids[i] < ids[j] })
	return ids
}

// ReadCheck opens a read transaction and compares root and every live page
// with the committed spec (C03); prop is the property charged on mismatch.
func (s *Session) ReadCheck(prop string) {
	var tx *txfile.Tx
	res := s.guard("beginro", func() error {
		var err error
		tx, err = s.F.BeginReadonly()
		return err
	})
	if res != "ok" {
		s.fail(prop, "beginro", "BeginReadonly failed: %s", res)
		s.emit("readcheck => %s", res)
		return
	}
	defer func() { s.guard("closero", func() error { return tx.Close() }) }()
	var sb strings.Builder
	if uint64(tx.Root()) != s.Root {
		s.fail(prop, "root", "root is %d, expected %d", tx.Root(), s.Root)
	}
	fmt.Fprintf(&sb, "root=%d", tx.Root())
	for _, id := range s.LiveIDs() {
		want := s.Committed[id]
		if want.ID == ^uint64(0) {
			continue // allocated but never written: no defined content (may even lie beyond the file's end)
		}
		var got Content
		var parsed bool
		var errText string
		r := s.guard("ro-read", func() error {
			p, err := tx.Page(txfile.PageID(id))
			if err != nil {
				errText = err.Error()
				return err
			}
			b, err := p.Bytes()
			if err != nil {
				errText = err.Error()
				return err
			}
			got, parsed = Parse(b)
			return nil
		})
		if r != "ok" {
			kind := "ro-read-err"
			s.fail(prop, kind, "reading live page %d failed: %s (%s)", id, r, strings.ReplaceAll(errText, "\n", " | "))
			fmt.Fprintf(&sb, " %d=%s", id, r)
			continue
		}
		fmt.Fprintf(&sb, " %d=%s", id, got)
		if want.ID == ^uint64(0) {
			continue // never written: content unspecified
		}
		if !parsed || got != want {
			s.fail(prop, "ro-read", "live page %d reads %s (parsed=%v), expected %s", id, got, parsed, want)
		}
	}
	s.emit("readcheck %s", sb.String())
}

// Reopen closes and opens the file again.
func (s *Session) Reopen() string {
	if s.Tx != nil {
		s.Rollback("close")
	}
	s.CloseFile()
	s.mark("reopen")
	return s.Open()
}

// PageHash is the content hash used in crash traces.
func PageHash(b []byte) uint64 {
	h := uint64(14695981039346656037)
	for _, c := range b {
		h ^= uint64(c)
		h *= 1099511628211
	}
	return h % 1000000007 // keep numbers short; collisions only weaken the check
}

// recordReach stores the physical pages the just committed state depends on:
// live pages through the overwrite mapping, free-list pages, mapping pages.
func (s *Session) recordReach(n int) {
	if s.Reach == nil {
		s.Reach = map[int]string{}
	}
	fs := s.F.VerifSnapshot()
	img := s.Disk.Contents()
	ps := uint64(s.Cfg.PageSize)
	phys := map[uint64]uint64{}
	for _, e := range fs.Mapping {
		phys[e[0]] = e[1]
	}
	pages := map[uint64]bool{}
	for id, c := range s.Committed {
		if c.ID == ^uint64(0) {
			continue // never written: no defined content
		}
		if w, ok := phys[id]; ok {
			pages[w] = true
		} else {
			pages[id] = true
		}
	}
	for _, id := range RegionIDs(fs.FreelistPages) {
		pages[id] = true
	}
	for _, id := range RegionIDs(fs.WalPages) {
		pages[id] = true
	}
	ids := make([]uint64, 0, len(pages))
	for id := range pages {
		ids = append(ids, id)
	}
	sort.Slice(ids, func(i, j int) bool { return ids[i] < ids[j] })
	var sb strings.Builder
	for i, id := range ids {
		if i > 0 {
			sb.WriteByte(',')
		}
		var h uint64
		if (id+1)*ps <= uint64(len(img)) {
			h = PageHash(img[id*ps : (id+1)*ps])
		} else {
			h = PageHash(make([]byte, ps)) // beyond EOF reads as zeroes
		}
		fmt.Fprintf(&sb, "%d:%d", id, h)
	}
	if len(ids) == 0 {
		sb.WriteString("-")
	}
	s.Reach[n] = sb.String()
}

// CrashTrace renders the vfs operation log and the reach sets for the Lean crash model.
func (s *Session) CrashTrace() string {
	var sb strings.Builder
	log := s.Disk.LogCopy()
	ps := int64(s.Cfg.PageSize)
	fmt.Fprintf(&sb, "init %s\n", s.Reach[0])
	ns := make([]int, 0, len(s.Reach))
	for n := range s.Reach {
		ns = append(ns, n)
	}
	sort.Ints(ns)
	for _, n := range ns {
		fmt.Fprintf(&sb, "state %d %s\n", n, s.Reach[n])
	}
	created := false
	cur := 0
	// a header written with a transaction id seen before is a restored header (restoreMeta after a
	// failed final sync): it names the state that id was first written with. The fresh file holds
	// txid 1 (active) and txid 0, both naming state 0.
	stateOfTxid := map[uint64]int{0: 0, 1: 0}
	lastHdrTxid := uint64(1)
	for _, op := range log {
		switch op.Kind {
		case simdisk.OpMark:
			if op.Label == "created" {
				created = true
			}
			if strings.HasPrefix(op.Label, "commit-start ") {
				fmt.Sscanf(op.Label, "commit-start %d", &cur)
			}
			if op.Label == "acceptor-stop" {
				return sb.String()
			}
		case simdisk.OpSync:
			if created {
				sb.WriteString("s\n")
			}
		case simdisk.OpSyncFail:
			if created {
				sb.WriteString("sf\n")
			}
		case simdisk.OpTruncate:
			if created {
				fmt.Fprintf(&sb, "t %d\n", (op.Off+ps-1)/ps)
			}
		case simdisk.OpWrite:
			if !created {
				continue
			}
			if len(op.Data) == 84 && (op.Off == 0 || op.Off == ps) {
				m := txfile.VerifDecodeMeta(op.Data)
				st := cur
				if m.Txid < lastHdrTxid {
					st = stateOfTxid[m.Txid] // restored older header
				} else {
					stateOfTxid[m.Txid] = cur // a commit (a failed attempt's txid is used again by the next one)
				}
				lastHdrTxid = m.Txid
				fmt.Fprintf(&sb, "h %d %d %d\n", op.Off/ps, m.Txid, st)
				continue
			}
			for o := int64(0); o < int64(len(op.Data)); o += ps {
				e := o + ps
				if e > int64(len(op.Data)) {
					e = int64(len(op.Data))
				}
				buf := make([]byte, ps)
				copy(buf, op.Data[o:e])
				fmt.Fprintf(&sb, "w %d %d\n", (op.Off+o)/ps, PageHash(buf))
			}
		}
	}
	return sb.String()
}
