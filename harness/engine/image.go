package engine

import (
	"fmt"
	"sort"
	"strings"

	txfile "github.com/elastic/go-txfile"

	"verifharness/simdisk"
)

// SpecState is one committed state of the specification store.
type SpecState struct {
	N     int // commit number (CommitN at the time), 0 = freshly created file
	Root  uint64
	Pages map[uint64]Content
	// LeakOK: pages that are neither free nor internal nor live are tolerated (files whose limit was
	// lowered: the release of the excess pages leaks its old free-list page, an observation outside the
	// properties). Every live page must still be there.
	LeakOK bool
}

func (s *Session) specState(n int) SpecState {
	m := make(map[uint64]Content, len(s.Committed))
	for k, v := range s.Committed {
		m[k] = v
	}
	return SpecState{N: n, Root: s.Root, Pages: m}
}

func (st SpecState) ids() []uint64 {
	ids := make([]uint64, 0, len(st.Pages))
	for id := range st.Pages {
		ids = append(ids, id)
	}
	sort.Slice(ids, func(i, j int) bool { return ids[i] < ids[j] })
	return ids
}

// matchState compares what a read transaction sees with a spec state.
func matchState(tx *txfile.Tx, st SpecState) string {
	if uint64(tx.Root()) != st.Root {
		return fmt.Sprintf("root %d != %d", tx.Root(), st.Root)
	}
	for _, id := range st.ids() {
		want := st.Pages[id]
		if want.ID == ^uint64(0) {
			continue
		}
		p, err := tx.Page(txfile.PageID(id))
		if err != nil {
			return fmt.Sprintf("page %d: %s", id, ErrKind(err))
		}
		b, err := p.Bytes()
		if err != nil {
			return fmt.Sprintf("page %d bytes: %s", id, ErrKind(err))
		}
		if want.ID == ^uint64(0) {
			continue
		}
		got, ok := Parse(b)
		if !ok || got != want {
			return fmt.Sprintf("page %d reads %s (parsed=%v), expected %s", id, got, ok, want)
		}
	}
	return ""
}

// ImageResult describes what opening an image produced.
type ImageResult struct {
	Opened  bool
	Panic   string
	OpenErr string
	Match   int    // index into the allowed states, -1 = none
	Diff    string // why the first allowed state did not match
	Probe   string // non-empty: the operational probe failed
}

// Progress, if set, is called whenever a check makes progress (hang watchdog).
var Progress func()

// CheckImage opens a disk image and determines which of the allowed states it
// exposes. With probe it also runs a write transaction afterwards and verifies
// the recovered state is unchanged by it.
func CheckImage(img []byte, opts txfile.Options, allowed []SpecState, probe bool) (res ImageResult) {
	res.Match = -1
	if Progress != nil {
		Progress()
	}
	if c := chainCycle(img); c != "" {
		// opening would never return (and exhaust memory): report instead of calling Open
		res.Panic = "open would hang: " + c
		return res
	}
	d := simdisk.FromImage("image", img)
	d.KeepLog = false
	var f *txfile.File
	func() {
		defer func() {
			if r := recover(); r != nil {
				res.Panic = fmt.Sprint(r)
			}
		}()
		var err error
		f, err = txfile.VerifOpen(d, opts)
		if err != nil {
			res.OpenErr = ErrKind(err) + ": " + firstLine(err.Error())
		}
	}()
	if res.Panic != "" || res.OpenErr != "" {
		return res
	}
	res.Opened = true
	defer func() {
		defer func() { recover() }()
		f.Close()
	}()
	func() {
		defer func() {
			if r := recover(); r != nil {
				res.Panic = "read: " + fmt.Sprint(r)
			}
		}()
		tx, err := f.BeginReadonly()
		if err != nil {
			res.Diff = "BeginReadonly: " + ErrKind(err)
			return
		}
		defer tx.Close()
		liveAll := LiveFromSnap(f.VerifSnapshot())
		// On a bounded file whose limit was never changed no data page lies at or beyond the limit
		// (c04o_alloc_below_limit); pages there that are neither free nor in use are remains of a partially
		// released overflow area (lost capacity, DESIGN.md 14.5), not pages the client owns.
		var liveBelow []uint64
		if fs := f.VerifSnapshot(); fs.MaxPages > 0 {
			for _, id := range liveAll {
				if id < fs.MaxPages {
					liveBelow = append(liveBelow, id)
				}
			}
		} else {
			liveBelow = liveAll
		}
		for i, st := range allowed {
			live := liveBelow
			if st.LeakOK {
				live = liveAll
			}
			d := matchState(tx, st)
			if d == "" {
				if ids := st.ids(); fmt.Sprint(ids) != fmt.Sprint(live) {
					ok := false
					if st.LeakOK {
						have := map[uint64]bool{}
						for _, id := range live {
							have[id] = true
						}
						ok = true
						for _, id := range ids {
							if !have[id] {
								ok = false
							}
						}
					}
					if !ok {
						d = fmt.Sprintf("set of live pages is %s, expected %s", runsOf(live), runsOf(ids))
					}
				}
			}
			if d == "" {
				res.Match = i
				return
			}
			if i == 0 {
				res.Diff = d
			} else {
				res.Diff += fmt.Sprintf(" || allowed[%d]: %s", i, d)
			}
		}
	}()
	if res.Match < 0 || !probe || res.Panic != "" {
		return res
	}
	// operational probe
	func() {
		defer func() {
			if r := recover(); r != nil {
				res.Probe = "panic: " + fmt.Sprint(r)
			}
		}()
		st := allowed[res.Match]
		tx, err := f.Begin()
		if err != nil {
			res.Probe = "Begin: " + ErrKind(err)
			return
		}
		defer tx.Close()
		ps := tx.PageSize()
		var newIDs []uint64
		for i := 0; i < 3; i++ {
			p, err := tx.Alloc()
			if err != nil {
				if ErrKind(err) == "err:oom" {
					break
				}
				res.Probe = "Alloc: " + ErrKind(err)
				return
			}
			id := uint64(p.ID())
			if _, live := st.Pages[id]; live || id < 2 {
				res.Probe = fmt.Sprintf("probe alloc returned live page %d", id)
				return
			}
			if err := p.SetBytes(Render(Content{ID: id, S1: 7777, S2: 7777}, ps)); err != nil {
				res.Probe = "SetBytes: " + ErrKind(err)
				return
			}
			newIDs = append(newIDs, id)
		}
		// overwrite and free one page each, if available
		ids := st.ids()
		over := uint64(0)
		if len(ids) > 0 {
			over = ids[0]
			p, err := tx.Page(txfile.PageID(over))
			if err == nil {
				err = p.SetBytes(Render(Content{ID: over, S1: 8888, S2: 8888}, ps))
			}
			if err != nil {
				res.Probe = "overwrite: " + ErrKind(err)
				return
			}
		}
		snap := f.VerifSnapshot()
		if err := tx.Commit(); err != nil {
			if k := ErrKind(err); k == "err:commitfail/oom" || k == "err:commitfail/oom/oom" {
				return // full file: acceptable
			}
			// the overwrite needs a page of the meta area at flush time; tryCommitChanges drops the
			// cause of a failing flush ("failed to flush dirty pages"), so recognise the full meta
			// area from the allocator state instead
			if snap.MaxPages > 0 && snap.MetaAvail == 0 && ErrKind(err) == "err:commitfail" {
				return
			}
			res.Probe = "Commit: " + ErrKind(err) + " (" + strings.ReplaceAll(fmt.Sprintf("%+v", err), "\n", " | ") + ")"
			return
		}
		rtx, err := f.BeginReadonly()
		if err != nil {
			res.Probe = "BeginReadonly after probe: " + ErrKind(err)
			return
		}
		defer rtx.Close()
		exp := SpecState{Root: st.Root, Pages: map[uint64]Content{}}
		for k, v := range st.Pages {
			exp.Pages[k] = v
		}
		for _, id := range newIDs {
			exp.Pages[id] = Content{ID: id, S1: 7777, S2: 7777}
		}
		if over != 0 {
			exp.Pages[over] = Content{ID: over, S1: 8888, S2: 8888}
		}
		if d := matchState(rtx, exp); d != "" {
			res.Probe = "state after probe transaction: " + d
		}
	}()
	return res
}

func firstLine(s string) string {
	for i, c := range s {
		if c == '\n' {
			return s[:i]
		}
	}
	if len(s) > 160 {
		return s[:160]
	}
	return s
}

// chainCycle detects a cyclic free-list / overwrite-mapping page chain in the
// header that Open would select. The implementation walks these chains
// without cycle detection, so opening such an image never returns.
func chainCycle(img []byte) string {
	if len(img) < 84 {
		return ""
	}
	m0 := txfile.VerifDecodeMeta(img[:84])
	var cands []txfile.VerifMeta
	if m0.Valid {
		cands = append(cands, m0)
		ps := int(m0.PageSize)
		if ps > 0 && len(img) >= ps+84 {
			if m1 := txfile.VerifDecodeMeta(img[ps : ps+84]); m1.Valid {
				cands = append(cands, m1)
			}
		}
	} else {
		for ps := 1024; ps+84 <= len(img); ps *= 2 {
			if m1 := txfile.VerifDecodeMeta(img[ps : ps+84]); m1.Valid && int(m1.PageSize) == ps {
				cands = append(cands, m1)
				break
			}
		}
	}
	if len(cands) == 2 { // Open selects the newer one
		if int64(cands[0].Txid-cands[1].Txid) > 0 {
			cands = cands[:1]
		} else {
			cands = cands[1:]
		}
	}
	for _, m := range cands {
		ps := uint64(m.PageSize)
		if ps == 0 {
			continue
		}
		for _, root := range []uint64{m.Freelist, m.Wal} {
			seen := map[uint64]bool{}
			for id := root; id != 0; {
				if seen[id] {
					return fmt.Sprintf("page chain starting at %d (header txid %d) is cyclic at page %d", root, m.Txid, id)
				}
				seen[id] = true
				off := id * ps
				if off+8 > uint64(len(img)) {
					break
				}
				id = uint64(0)
				for i := 7; i >= 0; i-- {
					id = id<<8 | uint64(img[off+uint64(i)])
				}
			}
		}
	}
	return ""
}

// LiveFromSnap derives the set of live data pages from the allocator state:
// every page below the data end marker that is neither free nor used by the
// file internally.
func LiveFromSnap(fs txfile.VerifSnap) []uint64 {
	used := internalPages(fs)
	for _, id := range RegionIDs(fs.DataFree) {
		used[id] = "datafree"
	}
	var live []uint64
	for id := uint64(2); id < fs.DataEnd; id++ {
		if used[id] == "" {
			live = append(live, id)
		}
	}
	return live
}
