package engine

import (
	"fmt"
	"hash/fnv"
	"strings"

	"verifharness/simdisk"
)

// CrashStats counts what a crash enumeration covered.
type CrashStats struct {
	Boundaries int
	Images     int
	Torn       int
	Distinct   int
	Exhaustive int // boundaries at which all subsets were enumerated
	Sampled    int // boundaries with more pending writes than the exhaustive limit
	MaxPending int
	Probes     int
	InCommit   int // images taken while a commit was in progress
}

func (s *Session) stateByN(n int) (SpecState, bool) {
	for _, st := range s.History {
		if st.N == n {
			return st, true
		}
	}
	return SpecState{}, false
}

func imgHash(img []byte, key int) uint64 {
	h := fnv.New64a()
	h.Write(img)
	return h.Sum64() ^ uint64(key)*0x9E3779B97F4A7C15
}

// CrashCheck replays the operation log of a finished session and checks that
// every crash image (durable image + any subset of the writes pending since
// the last completed sync, header writes additionally torn at any byte) opens
// to the last committed state or to the state of the commit in progress (C01).
func CrashCheck(s *Session, r *RNG, maxBits int, tornCuts int, probeEvery int, maxImages int) ([]Failure, CrashStats) {
	var fails []Failure
	var st CrashStats
	log := s.Disk.LogCopy()
	opts := s.Cfg.Options()
	ps := int(s.Cfg.PageSize)

	var durable []byte
	var pend []simdisk.Op
	created := false
	lastOK, inProg := 0, 0
	seen := map[uint64]bool{}

	sparseEvery := len(log)/15 + 1
	full := func() bool { return maxImages > 0 && st.Images >= maxImages }
	endOK := map[int]bool{}
	for _, op := range log {
		if op.Kind == simdisk.OpMark && strings.HasPrefix(op.Label, "commit-end ") {
			var n int
			var res string
			fmt.Sscanf(op.Label, "commit-end %d %s", &n, &res)
			endOK[n] = res == "ok"
		}
	}

	check := func(k int, img []byte, desc string) {
		if maxImages > 0 && st.Images >= maxImages+300 {
			return // hard cap; boundaries are skipped from maxImages on, header writes excepted
		}
		var allowed []SpecState
		if a, ok := s.stateByN(lastOK); ok {
			allowed = append(allowed, a)
		}
		if inProg != 0 && endOK[inProg] {
			if a, ok := s.stateByN(inProg); ok {
				allowed = append(allowed, a)
			}
		}
		h := imgHash(img, lastOK*1000+inProg)
		st.Images++
		if inProg != 0 {
			st.InCommit++
		}
		if seen[h] {
			return
		}
		seen[h] = true
		st.Distinct++
		probe := probeEvery > 0 && st.Distinct%probeEvery == 0
		if probe {
			st.Probes++
		}
		res := CheckImage(img, opts, allowed, probe)
		switch {
		case res.Panic != "":
			fails = append(fails, Failure{Prop: "C01", Kind: "crash-panic", Step: k,
				Msg: fmt.Sprintf("log index %d (%s): recovery panicked: %s", k, desc, res.Panic)})
		case !res.Opened:
			fails = append(fails, Failure{Prop: "C01", Kind: "crash-open", Step: k,
				Msg: fmt.Sprintf("log index %d (%s): reopen failed: %s", k, desc, res.OpenErr)})
		case res.Match < 0:
			fails = append(fails, Failure{Prop: "C01", Kind: "crash-state", Step: k,
				Msg: fmt.Sprintf("log index %d (%s), last commit %d, in progress %d: recovered state matches no allowed state: %s", k, desc, lastOK, inProg, res.Diff)})
		case res.Probe != "":
			fails = append(fails, Failure{Prop: "C01", Kind: "crash-probe", Step: k,
				Msg: fmt.Sprintf("log index %d (%s): recovered file not operational: %s", k, desc, res.Probe)})
		}
	}

	build := func(mask func(i int) bool) []byte {
		img := append([]byte(nil), durable...)
		for i, op := range pend {
			if mask(i) {
				img = simdisk.Apply(img, op)
			}
		}
		return img
	}

	for k, op := range log {
		switch op.Kind {
		case simdisk.OpMark:
			switch {
			case op.Label == "created":
				created = true
			case strings.HasPrefix(op.Label, "commit-start "):
				fmt.Sscanf(op.Label, "commit-start %d", &inProg)
			case strings.HasPrefix(op.Label, "commit-end "):
				var n int
				fmt.Sscanf(op.Label, "commit-end %d", &n)
				if endOK[n] {
					lastOK = n
				}
				inProg = 0
			}
			continue
		case simdisk.OpSync:
			for _, p := range pend {
				durable = simdisk.Apply(durable, p)
			}
			pend = pend[:0]
			if created {
				st.Boundaries++
				check(k, append([]byte(nil), durable...), "after sync")
			}
			continue
		default:
			pend = append(pend, op)
		}
		if !created || len(fails) > 5 {
			continue
		}
		isHdr := op.Kind == simdisk.OpWrite && len(op.Data) == 84 && (op.Off == 0 || op.Off == int64(ps))
		if full() && !isHdr {
			continue // image budget used up; header writes are always looked at
		}
		if s.SparseCrash && !isHdr && r.Intn(sparseEvery) != 0 {
			continue // long logs (backlog programs): a sample of the boundaries, every header write included
		}
		st.Boundaries++
		n := len(pend)
		if n > st.MaxPending {
			st.MaxPending = n
		}
		if n <= maxBits {
			st.Exhaustive++
			for m := 0; m < 1<<uint(n); m++ {
				mm := m
				check(k, build(func(i int) bool { return mm>>uint(i)&1 == 1 }), fmt.Sprintf("subset %b of %d pending", mm, n))
			}
		} else {
			st.Sampled++
			check(k, build(func(i int) bool { return false }), "none of pending")
			check(k, build(func(i int) bool { return true }), "all pending")
			for j := 0; j < n; j++ {
				jj := j
				if s.SparseCrash && n > 32 && j != n-1 && r.Intn(n/3) != 0 {
					continue
				}
				check(k, build(func(i int) bool { return i == jj }), fmt.Sprintf("only pending #%d", jj))
				check(k, build(func(i int) bool { return i != jj }), fmt.Sprintf("all but pending #%d", jj))
				check(k, build(func(i int) bool { return i <= jj }), fmt.Sprintf("prefix %d", jj))
			}
			nrand := 24
			if s.SparseCrash {
				nrand = 6
			}
			for j := 0; j < nrand; j++ {
				bits := r.Next()
				bits2 := r.Next()
				check(k, build(func(i int) bool {
					if i < 64 {
						return bits>>uint(i)&1 == 1
					}
					return bits2>>uint(i%64)&1 == 1
				}), "random subset")
			}
		}
		// torn header write
		if op.Kind == simdisk.OpWrite && len(op.Data) == 84 && (op.Off == 0 || op.Off == int64(ps)) {
			step := 1
			if tornCuts > 0 && tornCuts < 83 {
				step = 83 / tornCuts
			}
			for c := 1; c < 84; c += step {
				torn := simdisk.Op{Kind: simdisk.OpWrite, Off: op.Off, Data: op.Data[:c]}
				img := build(func(i int) bool { return i < n-1 })
				img = simdisk.Apply(img, torn)
				st.Torn++
				check(k, img, fmt.Sprintf("header write torn after %d bytes", c))
			}
		}
	}
	return fails, st
}
