package main

import (
	"fmt"

	"verifharness/engine"
)

func init() { checks["backlog"] = runBacklog }

// runBacklog: crash safety of commits that are larger than one writer batch
// while the disk lags behind (C01). The operation log goes to the Lean
// acceptor like every other crash program; the crash images are sampled.
func runBacklog(rep *Report) {
	tw, doneTw := traceWriter()
	defer doneTw()
	tot := engine.CrashStats{}
	for i := 0; i < *fN; i++ {
		if !startProgram(i) {
			continue
		}
		ps := progSeed(*fSeed, i)
		r := &engine.RNG{S: ps}
		cfg := engine.RandomConfig(r)
		cfg.MaxPages, cfg.Prealloc, cfg.PageSize = 0, false, 1024 // small pages: the images are copied for every crash point
		p := engine.DefaultParams()
		p.Txs = 2
		p.Reopen = 0
		s := engine.RunProgram(r, cfg, p)
		s.SparseCrash = true
		if s.F != nil {
			res := s.BigStalledCommit(r)
			if res == "ok" && s.F != nil {
				q := p
				q.Txs = 1
				s.Continue(r, q) // one more transaction: its boundaries check the durability of the big one
			}
		}
		s.Finish()
		if tw != nil {
			fmt.Fprintf(tw, "program %d seed=%d\n%send\n", i, ps, s.CrashTrace())
		}
		fails, st := engine.CrashCheck(s, r, 5, 4, 0, 300)
		s.Failures = append(s.Failures, fails...)
		tot.Boundaries += st.Boundaries
		tot.Images += st.Images
		tot.Distinct += st.Distinct
		tot.Torn += st.Torn
		tot.Sampled += st.Sampled
		tot.InCommit += st.InCommit
		if st.MaxPending > tot.MaxPending {
			tot.MaxPending = st.MaxPending
		}
		collect(rep, s, i, ps, nil, len(rep.Failures) < 3)
	}
	rep.Extra["crash"] = tot
	rep.Distinct = tot.Distinct
}
