package main

import (
	"fmt"

	"verifharness/engine"
)

func init() {
	checks["crash"] = runCrash
}

func runCrash(rep *Report) {
	tw, doneTw := traceWriter()
	defer doneTw()
	tot := engine.CrashStats{}
	for i := 0; i < *fN; i++ {
		if !startProgram(i) {
			continue
		}
		ps := progSeed(*fSeed, i)
		r := &engine.RNG{S: ps}
		cfg := engine.RandomConfig(r)
		p := engine.DefaultParams()
		p.Txs = 8
		p.Reopen = 5
		if *fTier == "thorough" {
			p.Txs = 14
		}
		if i%12 == 11 {
			// a free region whose length sits at an encoding boundary of the free list entries
			// (254..256: the 8 bit counter / overflow marker), recovered by a reopen and allocated from
			cfg.MaxPages = 0
			p.FreeRun = 254 + (i/12)%3
			p.Txs = 6
		}
		s := engine.RunProgram(r, cfg, p)
		s.Finish()
		if tw != nil {
			fmt.Fprintf(tw, "program %d seed=%d\n%send\n", i, ps, s.CrashTrace())
		}
		bits, cuts, maxImg := 7, 12, 6000
		if *fTier == "thorough" {
			bits, cuts, maxImg = 10, 83, 60000
		}
		fails, st := engine.CrashCheck(s, r, bits, cuts, 7, maxImg)
		s.Failures = append(s.Failures, fails...)
		tot.Boundaries += st.Boundaries
		tot.Images += st.Images
		tot.Distinct += st.Distinct
		tot.Torn += st.Torn
		tot.Exhaustive += st.Exhaustive
		tot.Sampled += st.Sampled
		tot.Probes += st.Probes
		tot.InCommit += st.InCommit
		if st.MaxPending > tot.MaxPending {
			tot.MaxPending = st.MaxPending
		}
		collect(rep, s, i, ps, nil, len(rep.Failures) < 3)
	}
	rep.Extra["crash"] = tot
	rep.Distinct = tot.Distinct
}
