package main

import (
	"fmt"

	"verifharness/engine"
)

func init() {
	checks["crash"] = runCrash
}

func runCrash(rep *Report) {
	tw, doneTw := traceWriter()
	defer doneTw()
	tot := engine.CrashStats{}
	for i := 0; i < *fN; i++ {
		if !startProgram(i) {
			continue
		}
		ps := progSeed(*fSeed, i)
		r := &engine.RNG{S: ps}
		cfg := engine.RandomConfig(r)
		p := engine.DefaultParams()
		p.Txs = 8
		p.Reopen = 5
		if *fTier == "thorough" {
			p.Txs = 14
		}
		if i%12 == 11 {
			// a free region whose length sits at an encoding boundary of the free list entries
			// (254..256: the 8 bit counter / overflow marker), recovered by a reopen and allocated from
			cfg.MaxPages = 0
			p.FreeRun = 254 + (i/12)%3
			p.Txs = 6
		}
		if i%12 == 5 {
			// full bounded files whose committed state keeps meta pages in the overflow area (beyond the limit),
			// with rolled back transactions in between (their clean-up truncates the file)
			if cfg.MaxPages == 0 {
				cfg.MaxPages = uint64(65536/cfg.PageSize) + uint64(r.Intn(24))
				if uint64(cfg.InitMeta) >= cfg.MaxPages-2 {
					cfg.InitMeta = 4
				}
			}
			p.Overflow, p.KeepFill, p.BigAlloc, p.AbortPct, p.Reopen = 60, 95, 40, 40, 15
			p.MinAlloc = int(cfg.MaxPages / 3) // full after a few transactions
			p.Txs += 4
			p.OnQuiesce = func(s *engine.Session) {
				// a transaction that is rolled back while the committed state lives partly in the overflow area
				if s.F == nil || s.Tx != nil {
					return
				}
				if fs := s.F.VerifSnapshot(); fs.MaxPages > 0 && fs.MetaEnd > fs.MaxPages && fs.MetaEnd > fs.DataEnd {
					if s.Begin(engine.TxOpts{}) == "ok" {
						if live := s.LiveIDs(); len(live) > 0 {
							s.Write(live[0], "full")
						}
						s.Rollback([]string{"rollback", "close"}[int(fs.Stats.DataAllocated)%2])
						s.Mark("rollback-on-overflow-state")
					}
				}
			}
		}
		s := engine.RunProgram(r, cfg, p)
		s.Finish()
		if tw != nil {
			fmt.Fprintf(tw, "program %d seed=%d\n%send\n", i, ps, s.CrashTrace())
		}
		bits, cuts, maxImg := 7, 12, 6000
		if *fTier == "thorough" {
			bits, cuts, maxImg = 10, 83, 60000
		}
		fails, st := engine.CrashCheck(s, r, bits, cuts, 7, maxImg)
		s.Failures = append(s.Failures, fails...)
		tot.Boundaries += st.Boundaries
		tot.Images += st.Images
		tot.Distinct += st.Distinct
		tot.Torn += st.Torn
		tot.Exhaustive += st.Exhaustive
		tot.Sampled += st.Sampled
		tot.Probes += st.Probes
		tot.InCommit += st.InCommit
		if st.MaxPending > tot.MaxPending {
			tot.MaxPending = st.MaxPending
		}
		collect(rep, s, i, ps, nil, len(rep.Failures) < 3)
	}
	rep.Extra["crash"] = tot
	rep.Distinct = tot.Distinct
}
