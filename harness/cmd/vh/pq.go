package main

import (
	"fmt"

	"verifharness/engine"
	"verifharness/pqrun"
)

func init() { checks["pq"] = runPQ }

func runPQ(rep *Report) {
	tw, done := traceWriter()
	defer done()
	for i := 0; i < *fN; i++ {
		if !startProgram(i) {
			continue
		}
		ps := progSeed(*fSeed, i)
		r := &engine.RNG{S: ps}
		cfg := pqrun.RandomConfig(r)
		p := pqrun.Params{Steps: 120, Reopen: 50, BigEvent: 15, Lag: 10 + r.Intn(60)}
		if *fTier == "thorough" {
			p.Steps = 600
		}
		if i%4 == 3 {
			p.Fault = 30 // I/O errors inside flush and ACK transactions
		}
		var s *pqrun.Session
		if i%6 == 5 {
			s = pqrun.ExactFill(r, cfg, (i/6)%8) // fill a fresh file to the last page, then drain
		} else {
			s = pqrun.Run(r, cfg, p)
		}
		if s.Q != nil {
			s.Close()
		}
		rep.Programs++
		rep.Steps += s.Step
		rep.addCounts(s.Markers, s.OpCount, s.ErrCount)
		if len(s.Markers) >= 3 {
			rep.Distinct++
		}
		if tw != nil {
			fmt.Fprintf(tw, "program %d seed=%d\n", i, ps)
			tw.Write(s.Trace.Bytes())
			fmt.Fprintf(tw, "end\n")
		}
		perKind := map[string]int{}
		for k, f := range s.Failures {
			// at most 2 per kind, 12 per program: a frequent kind must not hide a different one
			if perKind[f.Prop+"/"+f.Kind] >= 2 || len(perKind) > 12 {
				continue
			}
			perKind[f.Prop+"/"+f.Kind]++
			fr := FailureRec{Prop: f.Prop, Kind: f.Kind, Msg: f.Msg, Seed: *fSeed, Program: i, Step: f.Step}
			if k == 0 && len(rep.Failures) < 3 {
				fr.Trace = s.Trace.String()
			}
			rep.Failures = append(rep.Failures, fr)
		}
		if len(rep.Samples) < 2 && s.Step > 10 {
			t := s.Trace.String()
			if len(t) > 1200 {
				t = t[:1200] + "..."
			}
			rep.Samples = append(rep.Samples, t)
		}
	}
}

func init() { checks["pqcrash"] = runPQCrash }

func runPQCrash(rep *Report) {
	tw, doneTw := traceWriter()
	defer doneTw()
	tot := pqrun.CrashStats{}
	for i := 0; i < *fN; i++ {
		if !startProgram(i) {
			continue
		}
		ps := progSeed(*fSeed, i)
		r := &engine.RNG{S: ps}
		cfg := pqrun.RandomConfig(r)
		p := pqrun.Params{Steps: 40, Reopen: 30, BigEvent: 15, Lag: 10 + r.Intn(30)}
		if *fTier == "thorough" {
			p.Steps = 100
		}
		s := pqrun.Run(r, cfg, p)
		if s.Q != nil {
			s.Close()
		}
		if tw != nil {
			fmt.Fprintf(tw, "program %d seed=%d\n%send\n", i, ps, s.CrashTrace())
		}
		bits, maxImg := 6, 3000
		if *fTier == "thorough" {
			bits, maxImg = 9, 30000
		}
		fails, st := pqrun.CrashCheck(s, r, bits, maxImg)
		s.Failures = append(s.Failures, fails...)
		tot.Boundaries += st.Boundaries
		tot.Images += st.Images
		tot.Distinct += st.Distinct
		tot.InProgress += st.InProgress
		if st.MaxPending > tot.MaxPending {
			tot.MaxPending = st.MaxPending
		}
		rep.Programs++
		rep.Steps += s.Step
		rep.addCounts(s.Markers, s.OpCount, s.ErrCount)
		perKind := map[string]int{}
		for k, f := range s.Failures {
			// at most 2 per kind, 12 per program: a frequent kind must not hide a different one
			if perKind[f.Prop+"/"+f.Kind] >= 2 || len(perKind) > 12 {
				continue
			}
			perKind[f.Prop+"/"+f.Kind]++
			fr := FailureRec{Prop: f.Prop, Kind: f.Kind, Msg: f.Msg, Seed: *fSeed, Program: i, Step: f.Step}
			if k == 0 && len(rep.Failures) < 3 {
				fr.Trace = s.Trace.String()
			}
			rep.Failures = append(rep.Failures, fr)
		}
		if len(rep.Samples) < 1 {
			t := s.Trace.String()
			if len(t) > 800 {
				t = t[:800] + "..."
			}
			rep.Samples = append(rep.Samples, t)
		}
	}
	rep.Extra["pqcrash"] = tot
	rep.Distinct = tot.Distinct
}

func init() { checks["pqconc"] = runPQConc }

func runPQConc(rep *Report) {
	tw, done := traceWriter()
	defer done()
	for i := 0; i < *fN; i++ {
		if !startProgram(i) {
			continue
		}
		ps := progSeed(*fSeed, i)
		r := &engine.RNG{S: ps}
		cfg := pqrun.RandomConfig(r)
		n := 10 + r.Intn(30)
		if *fTier == "thorough" {
			n = 40 + r.Intn(100)
		}
		s, sys, res := pqrun.RunConcurrent(r, cfg, n)
		stuck := false
		for _, f := range s.Failures {
			if f.Kind == "stuck" || f.Kind == "deadlock" {
				stuck = true
			}
		}
		if s.Q != nil && !stuck {
			s.Close()
		}
		rep.Programs++
		rep.Steps += s.Step
		rep.addCounts(s.Markers, s.OpCount, s.ErrCount)
		if sys != nil {
			for k, v := range sys.Markers {
				rep.Markers[k] += v
			}
			if tw != nil {
				fmt.Fprintf(tw, "program %d seed=%d\ncfg ps=%d max=%d wb=%d\n%send\n", i, ps, cfg.PageSize, cfg.MaxPages, cfg.WriteBuffer, sys.TraceLines())
			}
		}
		if res.Events > 20 {
			rep.Distinct++
		}
		rep.Markers["events-produced"] += res.Produced
		rep.Markers["events-delivered"] += res.Delivered
		perKind := map[string]int{}
		for k, f := range s.Failures {
			// at most 2 per kind, 12 per program: a frequent kind must not hide a different one
			if perKind[f.Prop+"/"+f.Kind] >= 2 || len(perKind) > 12 {
				continue
			}
			perKind[f.Prop+"/"+f.Kind]++
			fr := FailureRec{Prop: f.Prop, Kind: f.Kind, Msg: f.Msg, Seed: *fSeed, Program: i, Step: f.Step}
			if k == 0 && len(rep.Failures) < 3 {
				fr.Trace = s.Trace.String()
			}
			rep.Failures = append(rep.Failures, fr)
		}
		if len(rep.Samples) < 1 && sys != nil {
			t := sys.TraceLines()
			if len(t) > 800 {
				t = t[:800] + "..."
			}
			rep.Samples = append(rep.Samples, t)
		}
		if stuck {
			break
		}
	}
}

func init() { checks["pqlayout"] = runPQLayout }

func runPQLayout(rep *Report) {
	tw, done := traceWriter()
	defer done()
	for i := 0; i < *fN; i++ {
		if !startProgram(i) {
			continue
		}
		r := &engine.RNG{S: progSeed(*fSeed, i)}
		P := []int{1024, 4096, 2048}[r.Intn(3)]
		S := P - 28
		cnt := 1 + r.Intn(30)
		var sizes []int
		for k := 0; k < cnt; k++ {
			var sz int
			switch r.Intn(8) {
			case 0:
				sz = 1 + r.Intn(8)
			case 1:
				sz = S - 4 - r.Intn(10)
			case 2:
				sz = S - r.Intn(12)
			case 3:
				sz = 2*S - r.Intn(16)
			case 4:
				sz = 1 + r.Intn(3*S)
			case 5:
				sz = S - 8 + r.Intn(8)
			default:
				sz = 1 + r.Intn(300)
			}
			if sz < 1 {
				sz = 1
			}
			sizes = append(sizes, sz)
		}
		pqrun.LayoutFaultPct = 0
		if i%3 == 2 {
			pqrun.LayoutFaultPct = 15 // failing flushes: the same calls on the writer model with failures (C12Writer)
		}
		line, ackLine, fails := pqrun.LayoutAckCase(r, P, sizes, true)
		rep.Programs++
		rep.Steps += len(sizes)
		rep.Distinct++
		if tw != nil && line != "" {
			fmt.Fprintln(tw, line)
			if ackLine != "" {
				fmt.Fprintln(tw, ackLine)
				rep.Markers["ackplan"]++
			}
			if pqrun.LastWriterOps != "" {
				fmt.Fprintln(tw, pqrun.LastWriterOps) // the same calls on the Lean writer model (C05Writer)
				if pqrun.LayoutFaultPct > 0 {
					rep.Markers["writeropsf"]++
				} else {
					rep.Markers["writerops"]++
				}
			}
		}
		if pqrun.LayoutCallsFailed > 0 {
			rep.Markers["layout-call-failed"] += pqrun.LayoutCallsFailed
		}
		for k, f := range fails {
			if k >= 2 {
				break
			}
			rep.Failures = append(rep.Failures, FailureRec{Prop: f.Prop, Kind: f.Kind, Msg: f.Msg, Seed: *fSeed, Program: i})
		}
		if len(rep.Samples) < 2 {
			rep.Samples = append(rep.Samples, line)
		}
	}
}
