package main

import (
	"fmt"

	"verifharness/engine"
	"verifharness/pqrun"
)

func init() { checks["pq"] = runPQ }

func runPQ(rep *Report) {
	tw, done := traceWriter()
	defer done()
	for i := 0; i < *fN; i++ {
		if !startProgram(i) {
			continue
		}
		ps := progSeed(*fSeed, i)
		r := &engine.RNG{S: ps}
		cfg := pqrun.RandomConfig(r)
		p := pqrun.Params{Steps: 120, Reopen: 50, BigEvent: 15, Lag: 10 + r.Intn(60)}
		if *fTier == "thorough" {
			p.Steps = 600
		}
		s := pqrun.Run(r, cfg, p)
		if s.Q != nil {
			s.Close()
		}
		rep.Programs++
		rep.Steps += s.Step
		rep.addCounts(s.Markers, s.OpCount, s.ErrCount)
		if len(s.Markers) >= 3 {
			rep.Distinct++
		}
		if tw != nil {
			fmt.Fprintf(tw, "program %d seed=%d\n", i, ps)
			tw.Write(s.Trace.Bytes())
			fmt.Fprintf(tw, "end\n")
		}
		for k, f := range s.Failures {
			if k >= 3 {
				break
			}
			fr := FailureRec{Prop: f.Prop, Kind: f.Kind, Msg: f.Msg, Seed: *fSeed, Program: i, Step: f.Step}
			if k == 0 && len(rep.Failures) < 3 {
				fr.Trace = s.Trace.String()
			}
			rep.Failures = append(rep.Failures, fr)
		}
		if len(rep.Samples) < 2 && s.Step > 10 {
			t := s.Trace.String()
			if len(t) > 1200 {
				t = t[:1200] + "..."
			}
			rep.Samples = append(rep.Samples, t)
		}
	}
}
