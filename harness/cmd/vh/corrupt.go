package main

import "verifharness/engine"

func init() { checks["corrupt"] = runCorrupt }

func runCorrupt(rep *Report) {
	tot := engine.CorruptStats{}
	for i := 0; i < *fN; i++ {
		if !startProgram(i) {
			continue
		}
		ps := progSeed(*fSeed, i)
		r := &engine.RNG{S: ps}
		cfg := engine.RandomConfig(r)
		p := engine.DefaultParams()
		p.Txs = 2 + r.Intn(8)
		p.AbortPct = 0
		p.Reopen = 5
		s := engine.RunProgram(r, cfg, p)
		// the last I/O must be a completed commit: finish with one more committed transaction
		p.Txs, p.AbortPct = 1, 0
		lastOK := false
		for k := 0; k < 5 && s.F != nil && !lastOK; k++ {
			lastOK = s.RunTx(r, p) == "commit-ok"
		}
		s.Finish()
		if !lastOK {
			collect(rep, s, i, ps, nil, false)
			continue
		}
		step := 8
		if *fTier == "thorough" {
			step = 1
		}
		fails, st := engine.CorruptCheck(s, r, step)
		s.Failures = append(s.Failures, fails...)
		tot.Images += st.Images
		tot.Flips += st.Flips
		tot.Tears += st.Tears
		tot.Garbage += st.Garbage
		tot.Both += st.Both
		tot.Fallbacks += st.Fallbacks
		collect(rep, s, i, ps, nil, len(rep.Failures) < 3)
	}
	rep.Extra["corrupt"] = tot
	rep.Distinct = tot.Images
}
