package main

import (
	"fmt"
	"os"
	"strings"

	txfile "github.com/elastic/go-txfile"

	"verifharness/engine"
	"verifharness/simdisk"
)

func init() { checks["simlock"] = runSimLock }

// runSimLock is the C18 check on the simulated disk: open / open failing through
// an injected I/O fault during initialisation / transactions with I/O faults
// (incl. a lost mapping) / close with a failing unmap. The simulated disk holds
// the advisory lock state, so "held iff a File is open" is checked directly and
// through the next Open. Emits the same pathop lines as pathlock for the model.
func runSimLock(rep *Report) {
	tw, doneTw := traceWriter()
	defer doneTw()
	emit := func(format string, a ...interface{}) {
		if tw != nil {
			fmt.Fprintf(tw, format+"\n", a...)
		}
	}
	fail := func(i int, kind, format string, a ...interface{}) {
		if len(rep.Failures) < 20 {
			rep.Failures = append(rep.Failures, FailureRec{Prop: "C18", Kind: kind, Msg: fmt.Sprintf(format, a...), Seed: *fSeed, Program: i})
			rep.write(*fOut) // a later crash of a library goroutine must not lose this
		}
	}
	kinds := []string{"mmap", "munmap", "read", "write", "sync", "truncate"}
	for i := 0; i < *fN; i++ {
		if !startProgram(i) {
			continue
		}
		r := &engine.RNG{S: progSeed(*fSeed, i)}
		d := simdisk.New(fmt.Sprintf("simfile%d", i)) // no "lock" in the name: errors are classified by their text
		d.StrictUnmap = true
		ps := uint32(4096)
		pages := uint64(32 + r.Intn(200))
		opts := txfile.Options{PageSize: ps, MaxSize: pages * uint64(ps), Prealloc: r.Chance(30)}
		var held *txfile.File
		var trace []string
		created := false // faults are injected only once the file exists: a failed creation leaves no valid file
		emit("new")
		steps := 14
		if *fTier == "thorough" {
			steps = 40
		}
		// arm fails the n-th call of one kind from now on (once)
		arm := func() string {
			kind := kinds[r.Intn(len(kinds))]
			base, _ := d.CallCounts()
			from := base[kind] + r.Intn(3)
			d.SetFault(func(k string, n, total int) simdisk.Action {
				if k == kind && n == from {
					return simdisk.ActErr
				}
				return simdisk.ActOK
			})
			return kind
		}
		open := func(o txfile.Options) (f *txfile.File, res string) {
			defer func() {
				if p := recover(); p != nil {
					f, res = nil, fmt.Sprintf("panic: %v", p)
				}
			}()
			d.Reopen()
			f, err := txfile.VerifOpen(d, o)
			if err != nil {
				res = engine.ErrKind(err)
				if strings.Contains(err.Error(), "lock") {
					res += "(lock)"
				}
				return nil, res
			}
			return f, "ok"
		}
		for k := 0; k < steps; k++ {
			op := r.Intn(10)
			switch {
			case held == nil && op <= 3: // plain open
				f, res := open(opts)
				trace = append(trace, "open=>"+res)
				cls := "ok"
				if res != "ok" {
					cls = "initErr"
					if strings.Contains(res, "lock") {
						cls = "lockErr"
					}
				}
				emit("pathop openOk => %s", cls)
				rep.Steps++
				if res != "ok" {
					fail(i, "reopen-blocked", "Open failed (%s) although no File is open (lock held: %v): %v", res, d.Locked(), trace)
				} else {
					held, created = f, true
					if !d.Locked() {
						fail(i, "not-locked", "file is open but the path lock is not held: %v", trace)
					}
				}
			case held == nil && op <= 6 && created: // open with an injected fault during initialisation
				kind := arm()
				o := opts
				if r.Chance(40) {
					// a max-size update runs internal transactions during Open
					o.Flags |= txfile.FlagUpdMaxSize
					o.MaxSize = (pages - uint64(r.Intn(8)) + uint64(r.Intn(16))) * uint64(ps)
				}
				f, res := open(o)
				d.SetFault(nil)
				if os.Getenv("VH_DEBUG") != "" {
					img := d.Contents()
					m0, m1 := txfile.VerifDecodeMeta(img[:84]), txfile.VerifDecodeMeta(img[ps:int(ps)+84])
					fmt.Fprintf(os.Stderr, "open(fault %s) flags=%d maxsize=%d => %s\n  slot0 valid=%v txid=%d max=%d de=%d me=%d\n  slot1 valid=%v txid=%d max=%d de=%d me=%d  len=%d\n", kind, o.Flags, o.MaxSize, res,
						m0.Valid, m0.Txid, m0.MaxSize, m0.DataEnd, m0.MetaEnd, m1.Valid, m1.Txid, m1.MaxSize, m1.DataEnd, m1.MetaEnd, len(img))
				}
				trace = append(trace, fmt.Sprintf("open(fault %s)=>%s", kind, res))
				rep.Steps++
				if res == "ok" {
					emit("pathop openOk => ok")
					rep.Markers["open-fault-missed"]++
					held = f
					if o.Flags&txfile.FlagUpdMaxSize != 0 {
						opts.MaxSize = o.MaxSize
					}
				} else {
					emit("pathop openFail => initErr")
					rep.Markers["open-fault-"+kind]++
					if d.Locked() {
						fail(i, "lock-leak-open", "Open failed (%s, injected %s fault) and left the path lock held: %v", res, kind, trace)
						d.Unlock() // let the run go on
					}
				}
			case held != nil && op <= 4: // a write transaction, sometimes with a fault (e.g. the remap after growth/shrink)
				kind := ""
				if r.Chance(40) {
					kind = arm()
				}
				func() {
					defer func() {
						if p := recover(); p != nil {
							rep.Markers["tx-panic"]++
						}
					}()
					tx, err := held.Begin()
					if err != nil {
						return
					}
					defer tx.Close()
					n := 1 + r.Intn(12)
					for j := 0; j < n; j++ {
						pg, err := tx.Alloc()
						if err != nil {
							break
						}
						pg.SetBytes(make([]byte, ps))
					}
					if tx.Commit() != nil {
						rep.Markers["tx-commit-err"]++
					}
				}()
				d.SetFault(nil)
				trace = append(trace, "tx(fault "+kind+")")
				rep.Markers["tx"]++
			case held != nil: // close, sometimes with a fault
				kind := ""
				if r.Chance(50) {
					kind = arm()
				}
				var cerr error
				func() {
					defer func() {
						if p := recover(); p != nil {
							cerr = fmt.Errorf("panic: %v", p)
						}
					}()
					cerr = held.Close()
				}()
				d.SetFault(nil)
				held = nil
				trace = append(trace, fmt.Sprintf("close(fault %s)=>%v", kind, cerr))
				emit("pathop close => ok")
				rep.Steps++
				rep.Markers["close"]++
				if cerr != nil {
					rep.Markers["close-err"]++
				}
				if d.Locked() {
					fail(i, "lock-leak-close", "Close returned (%v) and left the path lock held; the path cannot be opened again: %v", cerr, trace)
					d.Unlock()
				}
			}
		}
		if held != nil {
			func() { defer func() { recover() }(); held.Close() }()
		}
		rep.Programs++
		if len(trace) > 6 {
			rep.Distinct++
		}
		if len(rep.Samples) < 2 {
			rep.Samples = append(rep.Samples, strings.Join(trace, " "))
		}
	}
}
