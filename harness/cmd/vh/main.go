// Command vh is the verification harness: it runs the real go-txfile code on a
// simulated disk and reports property failures, statistics and model traces.
package main

import (
	"encoding/json"
	"flag"
	"fmt"
	"os"
	"runtime/pprof"
	"sync/atomic"
	"time"

	"verifharness/engine"
)

// Report is the JSON summary every subcommand prints.
type Report struct {
	Check     string                 `json:"check"`
	Seed      uint64                 `json:"seed"`
	Programs  int                    `json:"programs"`
	Steps     int                    `json:"steps"`
	Distinct  int                    `json:"distinct_nontrivial"`
	Markers   map[string]int         `json:"markers"`
	Ops       map[string]int         `json:"ops"`
	Errors    map[string]int         `json:"errors"`
	Failures  []FailureRec           `json:"failures"`
	Samples   []string               `json:"samples"`
	Extra     map[string]interface{} `json:"extra,omitempty"`
}

// FailureRec is one property failure with its replay information.
type FailureRec struct {
	Prop    string `json:"prop"`
	Kind    string `json:"kind"`
	Msg     string `json:"msg"`
	Seed    uint64 `json:"seed"`
	Program int    `json:"program"`
	Step    int    `json:"step"`
	Trace   string `json:"trace,omitempty"`
}

func newReport(check string, seed uint64) *Report {
	return &Report{Failures: []FailureRec{}, Samples: []string{}, Check: check, Seed: seed, Markers: map[string]int{}, Ops: map[string]int{}, Errors: map[string]int{}, Extra: map[string]interface{}{}}
}

func (r *Report) addCounts(m, o, e map[string]int) {
	for k, v := range m {
		r.Markers[k] += v
	}
	for k, v := range o {
		r.Ops[k] += v
	}
	for k, v := range e {
		r.Errors[k] += v
	}
}

func (r *Report) write(path string) {
	b, _ := json.MarshalIndent(r, "", " ")
	if path == "" || path == "-" {
		os.Stdout.Write(b)
		fmt.Println()
		return
	}
	if err := os.WriteFile(path, b, 0o644); err != nil {
		fmt.Fprintln(os.Stderr, "write report:", err)
		os.Exit(2)
	}
}

var (
	fSeed  = flag.Uint64("seed", 1, "PRNG seed")
	fN     = flag.Int("n", 100, "number of programs / cases")
	fOut   = flag.String("out", "-", "report file")
	fTrace = flag.String("trace", "", "file receiving the annotated traces for the Lean driver")
	fWork  = flag.Int("worker", 0, "worker index")
	fOf    = flag.Int("of", 1, "number of workers")
	fTier  = flag.String("tier", "quick", "quick|thorough")
	fProg  = flag.Int("program", -1, "run only this program index (replay)")
	fHang  = flag.Int("hang", 30, "seconds without progress before a hang is reported")
)

func main() {
	if len(os.Args) < 2 {
		fmt.Fprintln(os.Stderr, "usage: vh <check> [flags]")
		os.Exit(2)
	}
	check := os.Args[1]
	flag.CommandLine.Parse(os.Args[2:])
	fn, ok := checks[check]
	if !ok {
		fmt.Fprintln(os.Stderr, "unknown check", check)
		os.Exit(2)
	}
	if pf := os.Getenv("VH_CPUPROFILE"); pf != "" {
		if f, err := os.Create(pf); err == nil {
			pprof.StartCPUProfile(f)
			defer pprof.StopCPUProfile()
		}
	}
	rep := newReport(check, *fSeed)
	engine.Progress = func() { atomic.AddInt64(&progress, 1) }
	go watchdog(rep)
	fn(rep)
	rep.write(*fOut)
}

var checks = map[string]func(*Report){}

// progress is bumped whenever a program starts; the watchdog turns a stall
// into a reported hang (with goroutine dump) instead of a silent timeout.
var progress int64
var currentProgram int64 = -1

func startProgram(i int) bool {
	if !mine(i) {
		return false
	}
	atomic.StoreInt64(&currentProgram, int64(i))
	atomic.AddInt64(&progress, 1)
	return true
}

func watchdog(rep *Report) {
	last, since := int64(-1), time.Now()
	for {
		time.Sleep(500 * time.Millisecond)
		p := atomic.LoadInt64(&progress)
		if p != last {
			last, since = p, time.Now()
			continue
		}
		if time.Since(since) > time.Duration(*fHang)*time.Second {
			prog := atomic.LoadInt64(&currentProgram)
			fmt.Fprintf(os.Stderr, "HANG: no progress for %ds in program %d of check %s seed %d\n", *fHang, prog, rep.Check, rep.Seed)
			pprof.Lookup("goroutine").WriteTo(os.Stderr, 1)
			op, _ := engine.LastOp.Load().(string)
			rep.Failures = append(rep.Failures, FailureRec{Prop: "", Kind: "hang", Seed: rep.Seed, Program: int(prog),
				Msg: fmt.Sprintf("operation did not return within %ds (program %d of %s; last library call: %s)", *fHang, prog, rep.Check, op)})
			if cs := engine.Current; cs != nil {
				t := cs.Trace.String()
				rep.Failures[len(rep.Failures)-1].Trace = t
				// what the oracles had already reported in the program that hangs (usually the cause)
				for k, f := range cs.Failures {
					if k >= 6 {
						break
					}
					rep.Failures = append(rep.Failures, FailureRec{Prop: f.Prop, Kind: f.Kind, Msg: f.Msg, Seed: rep.Seed, Program: int(prog), Step: f.Step})
				}
				if *fTrace != "" {
					os.WriteFile(*fTrace, []byte(t), 0o644)
				}
			}
			rep.write(*fOut)
			os.Exit(3)
		}
	}
}
