// Command vh is the verification harness: it runs the real go-txfile code on a
// simulated disk and reports property failures, statistics and model traces.
package main

import (
	"encoding/json"
	"flag"
	"fmt"
	"os"
)

// Report is the JSON summary every subcommand prints.
type Report struct {
	Check     string                 `json:"check"`
	Seed      uint64                 `json:"seed"`
	Programs  int                    `json:"programs"`
	Steps     int                    `json:"steps"`
	Distinct  int                    `json:"distinct_nontrivial"`
	Markers   map[string]int         `json:"markers"`
	Ops       map[string]int         `json:"ops"`
	Errors    map[string]int         `json:"errors"`
	Failures  []FailureRec           `json:"failures"`
	Samples   []string               `json:"samples"`
	Extra     map[string]interface{} `json:"extra,omitempty"`
}

// FailureRec is one property failure with its replay information.
type FailureRec struct {
	Prop    string `json:"prop"`
	Kind    string `json:"kind"`
	Msg     string `json:"msg"`
	Seed    uint64 `json:"seed"`
	Program int    `json:"program"`
	Step    int    `json:"step"`
	Trace   string `json:"trace,omitempty"`
}

func newReport(check string, seed uint64) *Report {
	return &Report{Failures: []FailureRec{}, Samples: []string{}, Check: check, Seed: seed, Markers: map[string]int{}, Ops: map[string]int{}, Errors: map[string]int{}, Extra: map[string]interface{}{}}
}

func (r *Report) addCounts(m, o, e map[string]int) {
	for k, v := range m {
		r.Markers[k] += v
	}
	for k, v := range o {
		r.Ops[k] += v
	}
	for k, v := range e {
		r.Errors[k] += v
	}
}

func (r *Report) write(path string) {
	b, _ := json.MarshalIndent(r, "", " ")
	if path == "" || path == "-" {
		os.Stdout.Write(b)
		fmt.Println()
		return
	}
	if err := os.WriteFile(path, b, 0o644); err != nil {
		fmt.Fprintln(os.Stderr, "write report:", err)
		os.Exit(2)
	}
}

var (
	fSeed  = flag.Uint64("seed", 1, "PRNG seed")
	fN     = flag.Int("n", 100, "number of programs / cases")
	fOut   = flag.String("out", "-", "report file")
	fTrace = flag.String("trace", "", "file receiving the annotated traces for the Lean driver")
	fWork  = flag.Int("worker", 0, "worker index")
	fOf    = flag.Int("of", 1, "number of workers")
	fTier  = flag.String("tier", "quick", "quick|thorough")
	fProg  = flag.Int("program", -1, "run only this program index (replay)")
)

func main() {
	if len(os.Args) < 2 {
		fmt.Fprintln(os.Stderr, "usage: vh <check> [flags]")
		os.Exit(2)
	}
	check := os.Args[1]
	flag.CommandLine.Parse(os.Args[2:])
	fn, ok := checks[check]
	if !ok {
		fmt.Fprintln(os.Stderr, "unknown check", check)
		os.Exit(2)
	}
	rep := newReport(check, *fSeed)
	fn(rep)
	rep.write(*fOut)
}

var checks = map[string]func(*Report){}
