package main

import (
	"bufio"
	"encoding/hex"
	"fmt"
	"math/rand"
	"os"
	"strings"

	txfile "github.com/elastic/go-txfile"
)

func init() { checks["codec-lists"] = runCodecLists }

func b2i(b bool) int {
	if b {
		return 1
	}
	return 0
}

func randCount(r *rand.Rand) uint32 {
	switch r.Intn(6) {
	case 0:
		return uint32(r.Intn(3))
	case 1:
		return uint32(253 + r.Intn(5))
	case 2:
		return r.Uint32()
	case 3:
		return 0xFFFFFFFF
	default:
		return uint32(1 + r.Intn(1000))
	}
}

func randID(r *rand.Rand) uint64 {
	switch r.Intn(5) {
	case 0:
		return r.Uint64() // may exceed 55 bits
	case 1:
		return (1 << 55) - 1 - uint64(r.Intn(3))
	default:
		return uint64(r.Intn(1 << 20))
	}
}

func fmtRegs(l [][2]uint64) string {
	if len(l) == 0 {
		return "-"
	}
	var s []string
	for _, e := range l {
		s = append(s, fmt.Sprintf("%d:%d", e[0], e[1]))
	}
	return strings.Join(s, ",")
}

func runCodecLists(rep *Report) {
	out := bufio.NewWriter(os.Stdout)
	if *fTrace != "" {
		f, err := os.Create(*fTrace)
		if err != nil {
			panic(err)
		}
		defer f.Close()
		out = bufio.NewWriter(f)
	}
	defer out.Flush()
	r := rand.New(rand.NewSource(int64(*fSeed)*7919 + 42))
	fail := func(kind, format string, a ...interface{}) {
		if len(rep.Failures) < 20 {
			rep.Failures = append(rep.Failures, FailureRec{Prop: "C10", Kind: kind, Msg: fmt.Sprintf(format, a...), Seed: *fSeed})
		}
	}
	n1 := *fN
	n2 := *fN * 2 / 3
	for i := 0; i < n1; i++ {
		m, id, c := r.Intn(2) == 1, randID(r), randCount(r)
		enc := txfile.VerifEncodeRegion(m, id, c)
		switch {
		case c == 254:
			rep.Markers["region-254"]++
		case c == 255:
			rep.Markers["region-255"]++
		case c == 256:
			rep.Markers["region-256"]++
		case c == 0xFFFFFFFF:
			rep.Markers["region-maxcount"]++
		}
		if id >= 1<<55 {
			rep.Markers["region-id-too-large"]++
		}
		fmt.Fprintf(out, "encregion %d %d %d => %s\n", b2i(m), id, c, hex.EncodeToString(enc))
		// decode with trailing garbage
		buf := append(append([]byte(nil), enc...), byte(r.Intn(256)), byte(r.Intn(256)), byte(r.Intn(256)), byte(r.Intn(256)))
		dm, did, dc, n := txfile.VerifDecodeRegion(buf)
		fmt.Fprintf(out, "decregion %s => %d %d %d %d\n", hex.EncodeToString(buf), b2i(dm), did, dc, n)
		// implementation-level round trip (ids the format can hold)
		if id < 1<<55 && c >= 1 && (dm != m || did != id || dc != c || n != len(enc)) {
			fail("region-roundtrip", "region meta=%v id=%d count=%d encodes to %s, which decodes to meta=%v id=%d count=%d using %d of %d bytes",
				m, id, c, hex.EncodeToString(enc), dm, did, dc, n, len(enc))
		}
		// decode random 12 bytes
		rb := make([]byte, 12)
		r.Read(rb)
		if r.Intn(3) == 0 {
			rb[7] = 0x7f | byte(r.Intn(2))<<7 // count field 255 or 254/…
			rb[6] |= 0x80
		}
		dm, did, dc, n = txfile.VerifDecodeRegion(rb)
		fmt.Fprintf(out, "decregion %s => %d %d %d %d\n", hex.EncodeToString(rb), b2i(dm), did, dc, n)
	}
	pageSizes := []uint{32, 40, 64, 100, 128, 1024, 4096}
	for i := 0; i < n1; i++ {
		ps := pageSizes[r.Intn(len(pageSizes))]
		n := r.Intn(40)
		if ps >= 1024 {
			n = r.Intn(600)
		}
		var regs [][2]uint64
		var cs []string
		for j := 0; j < n; j++ {
			c := randCount(r)
			regs = append(regs, [2]uint64{uint64(j*3 + 1), uint64(c)})
			cs = append(cs, fmt.Sprint(c))
		}
		s := "-"
		if n > 0 {
			s = strings.Join(cs, ",")
		}
		fmt.Fprintf(out, "predictfl %d %s => %d\n", ps, s, txfile.VerifPredictFreelistPages(ps, regs))
	}
	for i := 0; i < n2; i++ {
		ps := pageSizes[r.Intn(len(pageSizes))]
		npages := r.Intn(5)
		var to [][2]uint64
		var ids []string
		perm := r.Perm(20)
		for j := 0; j < npages; j++ {
			id := uint64(perm[j]*2 + 2) // non adjacent: one region per page, arbitrary order
			to = append(to, [2]uint64{id, 1})
			ids = append(ids, fmt.Sprint(id))
		}
		idStr := "-"
		if npages > 0 {
			idStr = strings.Join(ids, ",")
		}
		gen := func(n int) [][2]uint64 {
			var l [][2]uint64
			for j := 0; j < n; j++ {
				l = append(l, [2]uint64{randID(r) & ((1 << 55) - 1), uint64(randCount(r))})
			}
			return l
		}
		ml, dl := gen(r.Intn(8)), gen(r.Intn(8))
		pages, err := txfile.VerifWriteFreeLists(to, ps, ml, dl)
		res := "error"
		if err == nil {
			var out []string
			for _, e := range to {
				out = append(out, fmt.Sprintf("%d=%s", e[0], hex.EncodeToString(pages[e[0]])))
			}
			res = strings.Join(out, ";")
			if len(out) == 0 {
				res = "-"
			}
			if len(pages) != len(to) {
				res = "pagecount-mismatch"
			}
		}
		fmt.Fprintf(out, "writefl %d %s %s %s => %s\n", ps, idStr, fmtRegs(ml), fmtRegs(dl), res)
		valid := true
		for _, e := range append(append([][2]uint64(nil), ml...), dl...) {
			if e[1] == 0 {
				valid = false // an empty region is not a region (out of contract)
			}
		}
		if err != nil {
			rep.Markers["freelist-too-few-pages"]++
		}
		if err == nil && valid && len(pages) == len(to) && len(to) > 0 {
			rep.Markers["freelist-roundtrip"]++
			if len(to) > 1 {
				rep.Markers["freelist-roundtrip-multipage"]++
			}
			// implementation-level round trip: what was written is what recovery reads
			var rm, rd [][2]uint64
			var rerr error
			func() {
				defer func() {
					if x := recover(); x != nil {
						rerr = fmt.Errorf("panic: %v", x)
					}
				}()
				rm, rd, _, rerr = txfile.VerifReadFreeList(pages, to[0][0])
			}()
			if rerr != nil || fmtRegs(rm) != fmtRegs(ml) || fmtRegs(rd) != fmtRegs(dl) {
				fail("freelist-roundtrip", "free lists meta=%s data=%s written to pages %s (page size %d) read back as meta=%s data=%s err=%v",
					fmtRegs(ml), fmtRegs(dl), idStr, ps, fmtRegs(rm), fmtRegs(rd), rerr)
			}
		}
		// single entry wal mapping (map iteration order is irrelevant then)
		var mp [][2]uint64
		if r.Intn(4) > 0 {
			mp = append(mp, [2]uint64{r.Uint64() >> uint(r.Intn(20)), r.Uint64() >> uint(r.Intn(20))})
		}
		wp, werr := txfile.VerifWriteWAL(to, ps, mp)
		res = "error"
		if werr == nil {
			var out []string
			for _, e := range to {
				out = append(out, fmt.Sprintf("%d=%s", e[0], hex.EncodeToString(wp[e[0]])))
			}
			res = strings.Join(out, ";")
			if len(out) == 0 {
				res = "-"
			}
		}
		fmt.Fprintf(out, "writewal %d %s %s => %s\n", ps, idStr, fmtRegs(mp), res)
	}
	rep.Programs = 2*n1 + n2
	rep.Steps = 4*n1 + 2*n2
	rep.Distinct = rep.Programs
	rep.Samples = append(rep.Samples, "encregion/decregion incl. ids >= 2^55, count 0, 253..257, MaxUint32 and random buffers; predictfl on random region lists; writefl/writewal with shuffled page ids and too few pages")
}
