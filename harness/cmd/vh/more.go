package main

import (
	"fmt"

	"verifharness/engine"
)

func init() {
	checks["abort"] = runAbort
	checks["fault"] = runFault
	checks["faultlog"] = func(rep *Report) { faultCrashTrace = true; runFault(rep) }
	checks["resize"] = runResize
	checks["space"] = runSpace
}

func runAbort(rep *Report) {
	tw, done := traceWriter()
	defer done()
	for i := 0; i < *fN; i++ {
		if !startProgram(i) {
			continue
		}
		ps := progSeed(*fSeed, i)
		r := &engine.RNG{S: ps}
		cfg := engine.RandomConfig(r)
		p := engine.DefaultParams()
		p.Reopen = 0
		if i%3 == 0 {
			p.Overflow = 35
		}
		s := engine.NewSession(cfg)
		if s.Open() == "ok" {
			rounds := 8
			if *fTier == "thorough" {
				rounds = 25
			}
			for k := 0; k < rounds && s.F != nil; k++ {
				q := p
				q.Txs = 1
				q.AbortPct = 0
				s.Continue(r, q)
				if s.F == nil {
					break
				}
				bound := false
				if i%3 == 1 && k%2 == 1 {
					// aborts on a file whose data area reaches past the limit
					s.GrowTail(r)
					if bound = s.SessionBound(r); !bound {
						s.ResizeProbe(r)
					}
					if s.F == nil {
						break
					}
				}
				how := []string{"rollback", "rollback", "close", "fault-commit", "flush-fault-abort"}[r.Intn(5)]
				if bound && r.Chance(60) {
					how = "fault-commit"
				}
				s.AbortProbe(r, p, how)
				if bound && s.F != nil {
					// the data area reaches past the session's limit: more failing commits on this state, with and
					// without frees (a commit that frees nothing merges an empty list into the free list)
					q := p
					q.FreePct = 0
					s.AbortProbe(r, q, "fault-commit")
					if s.F != nil {
						s.AbortProbe(r, p, "fault-commit")
					}
				}
			}
		}
		s.Finish()
		collect(rep, s, i, ps, tw, len(rep.Failures) < 3)
	}
}

// faultCrashTrace: the trace file receives the operation logs (with failing syncs) for the Lean
// acceptor of the commit protocol's failure path instead of the engine traces
var faultCrashTrace bool

func runFault(rep *Report) {
	tw, done := traceWriter()
	defer done()
	tot := engine.FaultStats{}
	for i := 0; i < *fN; i++ {
		if !startProgram(i) {
			continue
		}
		ps := progSeed(*fSeed, i)
		r := &engine.RNG{S: ps}
		cfg := engine.RandomConfig(r)
		p := engine.DefaultParams()
		s, st := engine.RunFaultProgram(r, cfg, p)
		s.Finish()
		tot.Plans += st.Plans
		tot.FailedCommits += st.FailedCommits
		tot.Recovered += st.Recovered
		if faultCrashTrace {
			if tw != nil {
				fmt.Fprintf(tw, "program %d seed=%d\n%send\n", i, ps, s.CrashTrace())
			}
			collect(rep, s, i, ps, nil, len(rep.Failures) < 3)
			continue
		}
		collect(rep, s, i, ps, tw, len(rep.Failures) < 3)
	}
	rep.Extra["fault"] = tot
}

func runResize(rep *Report) {
	tw, done := traceWriter()
	defer done()
	for i := 0; i < *fN; i++ {
		if !startProgram(i) {
			continue
		}
		ps := progSeed(*fSeed, i)
		r := &engine.RNG{S: ps}
		cfg := engine.RandomConfig(r)
		p := engine.DefaultParams()
		p.Reopen = 5
		p.OnQuiesce = func(s *engine.Session) { s.CheckExtent() }
		if i%3 == 2 {
			// full files, overflow area enabled (as pq does), frees at the end of the data area:
			// after a shrink the commit releases the end of the file
			p.Overflow, p.KeepFill, p.FreeTop, p.FreePct, p.BigAlloc = 70, 95, 60, 30, 30
		}
		faulty := i%8 == 5
		if faulty {
			// the limit of a preallocated file is lowered below its size while an I/O call inside that Open fails
			cfg.Prealloc = true
			if min := uint64(65536 / cfg.PageSize); cfg.MaxPages < min+24 {
				cfg.MaxPages = min + 24 + uint64(r.Intn(40))
			}
			if uint64(cfg.InitMeta) >= cfg.MaxPages-2 {
				cfg.InitMeta = 4
			}
		}
		s := engine.NewSession(cfg)
		if s.Open() == "ok" {
			rounds := 4
			if *fTier == "thorough" {
				rounds = 10
			}
			for k := 0; k < rounds && s.F != nil; k++ {
				q := p
				q.Txs = 1 + r.Intn(5)
				s.Continue(r, q)
				if s.F == nil {
					break
				}
				if faulty {
					if k == 0 {
						if !s.ShrinkUnderFault(r, true, "C14") {
							break
						}
					}
					continue
				}
				if i%3 == 2 && k%2 == 1 {
					s.FillAndOverflow(r) // a full file with meta pages beyond its limit, then the limit changes
				}
				s.ResizeProbe(r)
			}
			if s.F != nil {
				q := p
				q.Txs = 4
				s.Continue(r, q)
			}
		}
		s.Finish()
		collect(rep, s, i, ps, tw, len(rep.Failures) < 3)
	}
}

func runSpace(rep *Report) {
	tw, done := traceWriter()
	defer done()
	for i := 0; i < *fN; i++ {
		if !startProgram(i) {
			continue
		}
		ps := progSeed(*fSeed, i)
		r := &engine.RNG{S: ps}
		cfg := engine.RandomConfig(r)
		if cfg.MaxPages == 0 {
			cfg.MaxPages = uint64(65536/cfg.PageSize) + uint64(r.Intn(50))
			if uint64(cfg.InitMeta) >= cfg.MaxPages-2 {
				cfg.InitMeta = 4 // as in RandomConfig: the initial meta area has to fit into the file
			}
		}
		p := engine.DefaultParams()
		p.KeepFill = 50 + r.Intn(50)
		p.FreePct = 25
		p.Txs = 20
		if *fTier == "thorough" {
			p.Txs = 120
		}
		p.OnQuiesce = func(s *engine.Session) {
			if r.Chance(30) {
				s.CapacityProbe()
			}
		}
		s := engine.RunProgram(r, cfg, p)
		s.Finish()
		collect(rep, s, i, ps, tw, len(rep.Failures) < 3)
	}
}

func init() { checks["misuse"] = runMisuse }

func runMisuse(rep *Report) {
	tw, done := traceWriter()
	defer done()
	tot := engine.MisuseStats{}
	for i := 0; i < *fN; i++ {
		if !startProgram(i) {
			continue
		}
		ps := progSeed(*fSeed, i)
		r := &engine.RNG{S: ps}
		cfg := engine.RandomConfig(r)
		p := engine.DefaultParams()
		p.Txs = 1 + r.Intn(8)
		p.AbortPct = 10
		s := engine.RunProgram(r, cfg, p)
		if s.F != nil {
			noTrace := s.NoTrace
			s.NoTrace = true
			st := s.MisuseMatrix()
			s.NoTrace = noTrace
			tot.Cells += st.Cells
			tot.ErrorCells += st.ErrorCells
			tot.OkCells += st.OkCells
			if st.Cells > 0 {
				s.Markers["matrix"]++
				s.Markers["matrix2"]++
				s.Markers["matrix3"]++
			}
		}
		s.Finish()
		collect(rep, s, i, ps, tw, len(rep.Failures) < 3)
	}
	rep.Extra["misuse"] = tot
}
