package main

import (
	"bufio"
	"encoding/hex"
	"fmt"
	"os"

	txfile "github.com/elastic/go-txfile"

	"verifharness/engine"
	"verifharness/simdisk"
)

func init() {
	checks["codec-meta"] = runCodecMeta
}

func hx(b []byte) string {
	if len(b) == 0 {
		return "-"
	}
	return hex.EncodeToString(b)
}

func randMeta(r *engine.RNG) txfile.VerifMeta {
	pick := func(max uint64) uint64 {
		switch r.Intn(4) {
		case 0:
			return 0
		case 1:
			return uint64(r.Intn(300))
		case 2:
			return r.Next() % max
		default:
			return max - 1 - uint64(r.Intn(3))
		}
	}
	ps := uint32(1024 << uint(r.Intn(9))) // 1 KiB .. 256 KiB (the second header is found by probing page sizes)
	return txfile.VerifMeta{
		Magic: 0xBEA77AEB, Version: 1, PageSize: ps, Flags: uint32(r.Intn(2)),
		MaxSize: pick(1 << 40), Txid: pick(^uint64(0)) + uint64(r.Intn(2)), MetaTotal: pick(1 << 30), // txid up to 2^64-1
		Root: pick(1 << 40), Freelist: pick(1 << 40), Wal: pick(1 << 40),
		DataEnd: pick(1 << 40), MetaEnd: pick(1 << 40),
	}
}

// chooseOnDisk runs readValidMeta on a file holding b0 at offset 0 and b1 at
// the page size announced by b0 (when that is usable).
func chooseOnDisk(b0, b1 []byte, pageSize int) string {
	img := make([]byte, 3*pageSize)
	copy(img, b0)
	copy(img[pageSize:], b1)
	d := simdisk.FromImage("choose", img)
	active, err, p := txfile.VerifReadValidMeta(d)
	switch {
	case p != nil:
		return "panic"
	case err != nil:
		return "invalid"
	default:
		return fmt.Sprint(active)
	}
}

// runCodecMeta emits header codec cases with the implementation's answers and
// checks the implementation-level claims of C16 directly.
func runCodecMeta(rep *Report) {
	out := bufio.NewWriter(os.Stdout)
	if *fTrace != "" {
		f, err := os.Create(*fTrace)
		if err != nil {
			panic(err)
		}
		defer f.Close()
		out = bufio.NewWriter(f)
	}
	defer out.Flush()
	r := &engine.RNG{S: *fSeed*7919 + 17}
	fail := func(kind, format string, a ...interface{}) {
		if len(rep.Failures) < 20 {
			rep.Failures = append(rep.Failures, FailureRec{Prop: "C16", Kind: kind, Msg: fmt.Sprintf(format, a...), Seed: *fSeed})
		}
	}
	for i := 0; i < *fN; i++ {
		m := randMeta(r)
		b := txfile.VerifEncodeMeta(m)
		fmt.Fprintf(out, "metaenc %d %d %d %d %d %d %d %d %d %d => %s\n", m.PageSize, m.MaxSize, m.Flags, m.Root, m.Txid,
			m.Freelist, m.Wal, m.DataEnd, m.MetaEnd, m.MetaTotal, hx(b))
		fmt.Fprintf(out, "fnv %s => %d\n", hx(b[:80]), txfile.VerifMetaChecksum(b))
		fmt.Fprintf(out, "validate %s => %v\n", hx(b), txfile.VerifValidateMeta(b))
		rep.Steps += 3
		if !txfile.VerifValidateMeta(b) {
			fail("valid-rejected", "freshly finalized header does not validate: %s", hx(b))
		}
		// a second header: successor or predecessor transaction, incl. wrap-around
		m2 := m
		m2.Root = m.Root + 1
		switch r.Intn(3) {
		case 0:
			m2.Txid = m.Txid + 1
		case 1:
			m2.Txid = m.Txid - 1
		default:
			m2.Txid = r.Next()
		}
		b2 := txfile.VerifEncodeMeta(m2)
		ps := int(m.PageSize)
		fmt.Fprintf(out, "choose %s %s => %s\n", hx(b), hx(b2), chooseOnDisk(b, b2, ps))
		rep.Steps++
		if m2.Txid == m.Txid+1 {
			rep.Markers["successor"]++
			if m.Txid == ^uint64(0) {
				rep.Markers["txid-wraparound"]++
			}
			if c := chooseOnDisk(b, b2, ps); c != "1" {
				fail("newest", "header with txid %d in slot 0 and its successor (txid %d) in slot 1: chosen %s", m.Txid, m2.Txid, c)
			}
			if c := chooseOnDisk(b2, b, ps); c != "0" {
				fail("newest", "header with txid %d in slot 1 and its successor (txid %d) in slot 0: chosen %s", m.Txid, m2.Txid, c)
			}
		}
		if m2.Txid == m.Txid-1 {
			rep.Markers["predecessor"]++
			if m.Txid == 0 {
				rep.Markers["txid-wraparound"]++
			}
			if c := chooseOnDisk(b, b2, ps); c != "0" {
				fail("newest", "header with txid %d in slot 0 and its predecessor (txid %d) in slot 1: chosen %s", m.Txid, m2.Txid, c)
			}
		}
		// equal transaction ids: must not panic
		if i%8 == 0 {
			m3 := m
			m3.Root = m.Root + 2
			b3 := txfile.VerifEncodeMeta(m3)
			c := chooseOnDisk(b, b3, ps)
			fmt.Fprintf(out, "choose %s %s => %s\n", hx(b), hx(b3), c)
			rep.Markers["equal-txid"]++
			if c == "panic" {
				fail("panic-equal-txid", "two valid headers with equal txid: readValidMeta panics")
			}
		}
		// all single bit flips of this header (exhaustive for the header)
		if i%16 == 0 {
			for bit := 0; bit < 84*8; bit++ {
				d := append([]byte(nil), b...)
				d[bit/8] ^= 1 << uint(bit%8)
				v := txfile.VerifValidateMeta(d)
				fmt.Fprintf(out, "validate %s => %v\n", hx(d), v)
				rep.Steps++
				rep.Markers["bitflip"]++
				if v {
					fail("flip-accepted", "single bit flip %d accepted by Validate", bit)
				}
				if bit%24 == 0 { // image level: the other slot must win
					if c := chooseOnDisk(d, b2, ps); c != "1" {
						fail("flip-slot0", "slot 0 damaged by bit flip %d (byte %d), intact slot 1 not chosen: %s", bit, bit/8, c)
					}
					if c := chooseOnDisk(b2, d, ps); c != "0" {
						fail("flip-slot1", "slot 1 damaged by bit flip %d, intact slot 0 not chosen: %s", bit, c)
					}
				}
			}
			// byte-prefix tears: first k bytes from the other header
			for k := 1; k < 84; k++ {
				d := append([]byte(nil), b...)
				copy(d[:k], b2[:k])
				v := txfile.VerifValidateMeta(d)
				fmt.Fprintf(out, "validate %s => %v\n", hx(d), v)
				fmt.Fprintf(out, "choose %s %s => %s\n", hx(d), hx(b2), chooseOnDisk(d, b2, ps))
				rep.Steps += 2
				rep.Markers["tear"]++
			}
		}
		// random multi byte damage, zeroes
		d := append([]byte(nil), b...)
		for k := 0; k < 1+r.Intn(6); k++ {
			d[r.Intn(84)] = byte(r.Next())
		}
		fmt.Fprintf(out, "validate %s => %v\n", hx(d), txfile.VerifValidateMeta(d))
		fmt.Fprintf(out, "choose %s %s => %s\n", hx(d), hx(b2), chooseOnDisk(d, b2, ps))
		z := make([]byte, 84)
		fmt.Fprintf(out, "choose %s %s => %s\n", hx(z), hx(b2), chooseOnDisk(z, b2, ps))
		fmt.Fprintf(out, "choose %s %s => %s\n", hx(z), hx(z), chooseOnDisk(z, z, ps))
		rep.Steps += 4
		rep.Programs++
	}
	rep.Distinct = rep.Programs
	rep.Samples = append(rep.Samples, "metaenc/fnv/validate/choose cases over random headers; all 672 single-bit flips and 83 prefix tears of every 16th header")
}
