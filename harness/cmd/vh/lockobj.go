package main

import (
	"bufio"
	"fmt"
	"os"
	"time"

	txfile "github.com/elastic/go-txfile"

	"verifharness/engine"
)

func init() { checks["lockobj"] = runLockObj }

// runLockObj drives the real lock object of lock.go with random operation
// sequences: operations the current state lets through are executed and the
// resulting state is recorded; operations that must block are started in a
// goroutine, observed to block, and completed after the unblocking operation.
func runLockObj(rep *Report) {
	out := bufio.NewWriter(os.Stdout)
	if *fTrace != "" {
		f, err := os.Create(*fTrace)
		if err != nil {
			panic(err)
		}
		defer f.Close()
		out = bufio.NewWriter(f)
	}
	defer out.Flush()
	fail := func(i int, kind, format string, a ...interface{}) {
		if len(rep.Failures) < 10 {
			rep.Failures = append(rep.Failures, FailureRec{Prop: "C09", Kind: kind, Msg: fmt.Sprintf(format, a...), Seed: *fSeed, Program: i})
		}
	}
	for i := 0; i < *fN; i++ {
		if !startProgram(i) {
			continue
		}
		r := &engine.RNG{S: progSeed(*fSeed, i)}
		l := txfile.VerifNewLock()
		fmt.Fprintf(out, "new\n")
		shared, reservedHeld := 0, false
		state := func() string {
			s, p, rf := l.State()
			return fmt.Sprintf("%d %v %v", s, p, !rf)
		}
		steps := 30 + r.Intn(60)
		for k := 0; k < steps; k++ {
			s, p, rf := l.State()
			type cand struct {
				name, kind string
				lock       bool
				blocks     bool
			}
			var cs []cand
			cs = append(cs, cand{"sharedLock", "shared", true, p})
			if shared > 0 {
				cs = append(cs, cand{"sharedUnlock", "shared", false, false})
			}
			cs = append(cs, cand{"reservedLock", "reserved", true, !rf})
			if reservedHeld {
				cs = append(cs, cand{"reservedUnlock", "reserved", false, false})
			}
			cs = append(cs, cand{"pendingLock", "pending", true, false}, cand{"pendingUnlock", "pending", false, false})
			cs = append(cs, cand{"exclusiveLock", "exclusive", true, s > 0}, cand{"exclusiveUnlock", "exclusive", false, false})
			c := cs[r.Intn(len(cs))]
			rep.Steps++
			if !c.blocks {
				l.Op(c.kind, c.lock)
				fmt.Fprintf(out, "op %s => %s\n", c.name, state())
				switch c.name {
				case "sharedLock":
					shared++
				case "sharedUnlock":
					shared--
				case "reservedLock":
					reservedHeld = true
				case "reservedUnlock":
					reservedHeld = false
				}
				continue
			}
			// must block: run in a goroutine, observe, then unblock
			rep.Markers["blocked-"+c.name]++
			done := make(chan struct{})
			go func() { l.Op(c.kind, c.lock); close(done) }()
			select {
			case <-done:
				fail(i, "lock-not-blocking", "%s returned although it must block in state %s", c.name, state())
				fmt.Fprintf(out, "blocked %s => false\n", c.name)
			case <-time.After(200 * time.Microsecond):
				fmt.Fprintf(out, "blocked %s => true\n", c.name)
			}
			// unblock it
			var un string
			switch c.name {
			case "sharedLock":
				l.Op("pending", false)
				un = "pendingUnlock"
			case "reservedLock":
				l.Op("reserved", false)
				reservedHeld = false
				un = "reservedUnlock"
			case "exclusiveLock":
				for shared > 0 {
					l.Op("shared", false)
					shared--
					fmt.Fprintf(out, "op sharedUnlock => -\n")
				}
				un = ""
			}
			select {
			case <-done:
			case <-time.After(3 * time.Second):
				fail(i, "lock-stuck", "%s did not return after the blocking condition was removed (state %s)", c.name, state())
				return
			}
			if un != "" {
				fmt.Fprintf(out, "op %s => -\n", un)
			}
			fmt.Fprintf(out, "op %s => %s\n", c.name, state())
			switch c.name {
			case "sharedLock":
				shared++
			case "reservedLock":
				reservedHeld = true
			}
		}
		rep.Programs++
		rep.Distinct++
	}
	rep.Samples = append(rep.Samples, "random sequences of the 8 primitive lock operations on the real lock object; operations that must block are observed to block and completed after unblocking")
}
