package main

import (
	"fmt"
	"time"

	txfile "github.com/elastic/go-txfile"

	"verifharness/engine"
	"verifharness/sched"
)

func init() { checks["sched"] = runSched }

func runSched(rep *Report) {
	tw, done := traceWriter()
	defer done()
	for i := 0; i < *fN; i++ {
		if !startProgram(i) {
			continue
		}
		ps := progSeed(*fSeed, i)
		r := &engine.RNG{S: ps}
		cfg := engine.RandomConfig(r)
		cfg.Prealloc = false
		if cfg.InitMeta > 4 {
			cfg.InitMeta = 4
		}
		if cfg.MaxPages > 0 && cfg.MaxPages < 128 {
			cfg.MaxPages = 128
		}
		s, err := sched.NewSys(r, cfg)
		if err != nil {
			rep.Failures = append(rep.Failures, FailureRec{Prop: "C09", Kind: "setup", Msg: err.Error(), Seed: *fSeed, Program: i})
			continue
		}
		if i%8 == 7 {
			// File.Close called while a write transaction is open: it has to wait for the writer, and
			// until the writer is done it must not keep readers out (Close takes the reserved lock first)
			for _, f := range closeBehindWriter(s.F, r) {
				rep.Failures = append(rep.Failures, FailureRec{Prop: "C09", Kind: f[0], Msg: f[1], Seed: *fSeed, Program: i})
			}
			rep.Programs++
			rep.Markers["close-behind-writer"]++
			continue
		}
		var bodies []func(*sched.Thread)
		nr, nw := r.Intn(4), 1+r.Intn(2)
		if *fTier == "thorough" {
			nr = r.Intn(7)
		}
		for k := 0; k < nw; k++ {
			txs := 1 + r.Intn(3)
			s.AddThread("writer", txs)
			bodies = append(bodies, s.WriterBody(&engine.RNG{S: r.Next()}, txs))
		}
		for k := 0; k < nr; k++ {
			s.AddThread("reader", 1)
			bodies = append(bodies, s.ReaderBody(1+r.Intn(3)))
		}
		withClose := r.Chance(40)
		if withClose {
			s.AddThread("closer", 0)
			bodies = append(bodies, s.CloserBody())
		}
		ok := s.Run(bodies)
		if ok && !withClose {
			sh, p, rf := s.F.VerifLockState()
			if sh != 0 || p || !rf {
				s.Failures = append(s.Failures, engine.Failure{Prop: "C09", Kind: "lock-not-idle", Msg: fmt.Sprintf("all transactions finished but lock is shared=%d pending=%v reservedFree=%v", sh, p, rf)})
			}
			func() {
				defer func() { recover() }()
				s.F.Close()
			}()
		}
		_ = txfile.PageID(0)
		rep.Programs++
		rep.Steps += len(s.Events)
		for k, v := range s.Markers {
			rep.Markers[k] += v
		}
		rep.Markers[fmt.Sprintf("threads-%dw-%dr", nw, nr)]++
		if len(s.Events) > 10 {
			rep.Distinct++
		}
		if tw != nil {
			fmt.Fprintf(tw, "program %d seed=%d\n%send\n", i, ps, s.TraceLines())
		}
		for k, f := range s.Failures {
			if k >= 3 {
				break
			}
			fr := FailureRec{Prop: f.Prop, Kind: f.Kind, Msg: f.Msg, Seed: *fSeed, Program: i, Step: f.Step}
			if k == 0 && len(rep.Failures) < 3 {
				fr.Trace = s.TraceLines()
			}
			rep.Failures = append(rep.Failures, fr)
		}
		if len(rep.Samples) < 2 {
			t := s.TraceLines()
			if len(t) > 1200 {
				t = t[:1200] + "..."
			}
			rep.Samples = append(rep.Samples, t)
		}
		if !ok {
			// goroutines may be stuck: do not reuse the process state further
			break
		}
	}
}

// closeBehindWriter: writer open, Close started, readers come and go, writer ends, Close returns.
func closeBehindWriter(f *txfile.File, r *engine.RNG) (fails [][2]string) {
	fail := func(kind, format string, a ...interface{}) { fails = append(fails, [2]string{kind, fmt.Sprintf(format, a...)}) }
	wtx, err := f.Begin()
	if err != nil {
		fail("begin", "Begin failed: %v", err)
		return
	}
	if p, err := wtx.Alloc(); err == nil {
		p.SetBytes(make([]byte, wtx.PageSize()))
	}
	closed := make(chan error, 1)
	go func() {
		defer func() {
			if x := recover(); x != nil {
				closed <- fmt.Errorf("panic: %v", x)
			}
		}()
		closed <- f.Close()
	}()
	time.Sleep(20 * time.Millisecond)
	select {
	case err := <-closed:
		fail("close-early", "File.Close returned (%v) while a write transaction is open", err)
		return
	default:
	}
	readers := 1 + r.Intn(3)
	for k := 0; k < readers; k++ {
		done := make(chan error, 1)
		go func() {
			rtx, err := f.BeginReadonly()
			if err == nil {
				_ = rtx.Root()
				err = rtx.Close()
			}
			done <- err
		}()
		select {
		case err := <-done:
			if err != nil {
				fail("reader", "read transaction while Close waits for the writer failed: %v", err)
			}
		case <-time.After(3 * time.Second):
			fail("close-blocks-readers", "BeginReadonly does not return while File.Close is waiting for an open write transaction (the writer is not committing): readers are kept out by a Close that can not proceed")
			// let everything go
			wtx.Rollback()
			<-done
			<-closed
			return
		}
	}
	var werr error
	if r.Chance(50) {
		werr = wtx.Commit()
	} else {
		werr = wtx.Rollback()
	}
	if werr != nil {
		fail("writer-end", "ending the write transaction while Close waits failed: %v", werr)
	}
	select {
	case err := <-closed:
		if err != nil {
			fail("close", "File.Close failed: %v", err)
		}
	case <-time.After(3 * time.Second):
		fail("close-stuck", "File.Close does not return after the last transaction ended")
	}
	return
}
