package main

import (
	"fmt"
	"os"
	"path/filepath"
	"strings"
	"time"

	txfile "github.com/elastic/go-txfile"

	"verifharness/engine"
)

func init() { checks["pathlock"] = runPathLock }

// runPathLock exercises Open/Close on real files (the only check that uses the
// OS file system): sequences of open / failing open / close on one path, with
// the specification "the path lock is held iff a File is open" (C18).
func runPathLock(rep *Report) {
	tw, doneTw := traceWriter()
	defer doneTw()
	emit := func(format string, a ...interface{}) {
		if tw != nil {
			fmt.Fprintf(tw, format+"\n", a...)
		}
	}
	dir, err := os.MkdirTemp("", "vh-c18-")
	if err != nil {
		rep.Failures = append(rep.Failures, FailureRec{Prop: "C18", Kind: "setup", Msg: err.Error()})
		return
	}
	defer os.RemoveAll(dir)
	fail := func(i int, kind, format string, a ...interface{}) {
		if len(rep.Failures) < 20 {
			rep.Failures = append(rep.Failures, FailureRec{Prop: "C18", Kind: kind, Msg: fmt.Sprintf(format, a...), Seed: *fSeed, Program: i})
		}
	}
	for i := 0; i < *fN; i++ {
		if !startProgram(i) {
			continue
		}
		r := &engine.RNG{S: progSeed(*fSeed, i)}
		path := filepath.Join(dir, fmt.Sprintf("f%d.dat", i))
		good := txfile.Options{PageSize: 4096, MaxSize: 64 * 4096}
		var held *txfile.File
		var trace []string
		emit("new")
		class := func(res string) string {
			switch {
			case res == "ok":
				return "ok"
			case strings.Contains(res, "lock"):
				return "lockErr"
			case strings.Contains(res, "config"):
				return "invalid"
			}
			return "initErr"
		}
		steps := 12
		if *fTier == "thorough" {
			steps = 40
		}
		tryOpen := func(opts txfile.Options) (*txfile.File, string) {
			type res struct {
				f   *txfile.File
				err error
			}
			ch := make(chan res, 1)
			go func() {
				defer func() {
					if p := recover(); p != nil {
						ch <- res{nil, fmt.Errorf("panic: %v", p)}
					}
				}()
				f, err := txfile.Open(path, 0o600, opts)
				ch <- res{f, err}
			}()
			select {
			case x := <-ch:
				if x.err != nil {
					k := engine.ErrKind(x.err)
					if strings.Contains(x.err.Error(), "lock") {
						k += "(lock)"
					}
					return nil, k
				}
				return x.f, "ok"
			case <-time.After(30 * time.Second):
				// (real files, real fsyncs: an Open that runs the max-size transactions was seen to take more
				// than 3 s on a saturated machine, which is slowness, not blocking; 30 s as everywhere else.)
				// If it still returns later, close the file so that the path does not stay locked.
				go func() {
					if x := <-ch; x.f != nil {
						x.f.Close()
					}
				}()
				return nil, "blocked"
			}
		}
		created := false
		for k := 0; k < steps; k++ {
			op := r.Intn(8)
			switch {
			case op <= 2: // plain open
				o := good
				o.Readonly = r.Chance(35) // a read-only open locks the path like any other
				f, res := tryOpen(o)
				if o.Readonly {
					rep.Markers["open-readonly"]++
					trace = append(trace, "open(readonly)=>"+res)
				} else {
					trace = append(trace, "open=>"+res)
				}
				emit("pathop openOk => %s", class(res))
				rep.Steps++
				if held != nil {
					rep.Markers["open-while-held"]++
					if res == "ok" {
						fail(i, "double-open", "second Open of the same path succeeded while the file is open: %v", trace)
						f.Close()
					} else if !strings.Contains(res, "lock") {
						fail(i, "double-open-kind", "second Open failed with %s, expected a lock error", res)
					}
				} else {
					if res != "ok" {
						fail(i, "reopen-blocked", "Open failed (%s) although no File is open on the path (lock not released?): %v", res, trace)
					} else {
						held, created = f, true
					}
				}
			case op == 3: // close
				if held != nil {
					if err := held.Close(); err != nil {
						fail(i, "close", "Close failed: %v", err)
					}
					held = nil
					trace = append(trace, "close")
					emit("pathop close => ok")
					rep.Markers["close"]++
				}
			case op == 4: // invalid options
				bad := good
				bad.PageSize = 3000
				_, res := tryOpen(bad)
				emit("pathop openInvalid => %s", class(res))
				trace = append(trace, "open(invalid options)=>"+res)
				rep.Markers["open-invalid-options"]++
				if res == "ok" {
					fail(i, "invalid-accepted", "Open with an invalid page size succeeded")
				}
			case op == 5 && held == nil && created: // damaged headers: failure inside openWith
				orig, err := os.ReadFile(path)
				if err != nil || len(orig) < 8192 {
					break
				}
				dmg := append([]byte(nil), orig...)
				dmg[10] ^= 0xff
				dmg[4096+10] ^= 0xff
				os.WriteFile(path, dmg, 0o600)
				_, res := tryOpen(good)
				emit("pathop openFail => %s", class(res))
				trace = append(trace, "open(both headers damaged)=>"+res)
				rep.Markers["open-damaged"]++
				if res == "ok" {
					fail(i, "damaged-accepted", "Open succeeded with both headers damaged")
				}
				os.WriteFile(path, orig, 0o600)
			case op == 6 && held == nil && created: // open that runs the internal max-size transactions
				o := good
				o.Flags = txfile.FlagUpdMaxSize
				o.MaxSize = uint64(64+r.Intn(64)) * 4096
				f, res := tryOpen(o)
				emit("pathop openOk => %s", class(res))
				trace = append(trace, "open(update max size)=>"+res)
				rep.Markers["open-resize"]++
				if res == "ok" {
					held = f
				} else {
					fail(i, "resize-open", "Open with FlagUpdMaxSize failed: %s", res)
				}
			case op == 7 && held != nil: // wait flag: blocks until the holder closes
				o := good
				o.Flags = txfile.FlagWaitLock
				type wres struct {
					f   *txfile.File
					res string
				}
				done := make(chan wres, 1)
				go func() {
					f, err := txfile.Open(path, 0o600, o)
					if err != nil {
						done <- wres{nil, engine.ErrKind(err)}
						return
					}
					done <- wres{f, "ok"}
				}()
				select {
				case w := <-done:
					fail(i, "waitlock-not-blocking", "Open with FlagWaitLock returned (%s) while the file is open", w.res)
					if w.f != nil {
						w.f.Close()
					}
				case <-time.After(20 * time.Millisecond):
				}
				held.Close()
				held = nil
				emit("pathop close => ok")
				emit("pathop openOk => ok")
				select {
				case w := <-done:
					if w.res != "ok" {
						fail(i, "waitlock", "waiting Open failed after the holder closed: %s", w.res)
						emit("pathop close => ok")
					} else {
						// the waiter keeps the file open: the lock was handed over, later opens must fail
						held = w.f
					}
				case <-time.After(30 * time.Second):
					go func() { // a late return must not leave the path locked
						if w := <-done; w.f != nil {
							w.f.Close()
						}
					}()
					fail(i, "waitlock-stuck", "waiting Open did not return after the holder closed")
					emit("pathop close => ok")
				}
				trace = append(trace, "open(wait): handover")
				rep.Markers["waitlock"]++
			}
		}
		if held != nil {
			held.Close()
			emit("pathop close => ok")
		}
		// after everything: the path can be opened again immediately
		f, res := tryOpen(good)
		emit("pathop openOk => %s", class(res))
		if res != "ok" {
			fail(i, "final-open", "final Open failed (%s) after the sequence %v", res, trace)
		} else {
			f.Close()
			emit("pathop close => ok")
		}
		rep.Programs++
		rep.Distinct++
		if len(rep.Samples) < 2 {
			rep.Samples = append(rep.Samples, strings.Join(trace, " ; "))
		}
		os.Remove(path)
		os.Remove(path + ".lock")
	}
}
