package main

import (
	"bufio"
	"fmt"
	"os"

	"verifharness/engine"
)

func init() {
	checks["engine"] = runEngine
}

// progSeed derives the seed of program i from the run seed.
func progSeed(seed uint64, i int) uint64 {
	r := engine.RNG{S: seed*0x9E3779B97F4A7C15 + uint64(i)*0xD1B54A32D192ED03 + 12345}
	return r.Next()
}

func mine(i int) bool {
	if *fProg >= 0 {
		return i == *fProg
	}
	return i%*fOf == *fWork
}

func traceWriter() (*bufio.Writer, func()) {
	if *fTrace == "" {
		return nil, func() {}
	}
	f, err := os.Create(*fTrace)
	if err != nil {
		fmt.Fprintln(os.Stderr, err)
		os.Exit(2)
	}
	w := bufio.NewWriter(f)
	return w, func() { w.Flush(); f.Close() }
}

func collect(rep *Report, s *engine.Session, i int, ps uint64, tw *bufio.Writer, keepTrace bool) {
	rep.Programs++
	rep.Steps += s.Step
	rep.addCounts(s.Markers, s.OpCount, s.ErrCount)
	if len(s.Markers) >= 3 {
		rep.Distinct++
	}
	if tw != nil {
		fmt.Fprintf(tw, "program %d seed=%d\n", i, ps)
		tw.Write(s.Trace.Bytes())
		fmt.Fprintf(tw, "end\n")
	}
	perKind := map[string]int{}
	kept := 0
	for k, f := range s.Failures {
		// at most 2 per kind and 12 per program: a frequent (or known) kind must not hide a different one
		if perKind[f.Prop+"/"+f.Kind] >= 2 || kept >= 12 {
			continue
		}
		perKind[f.Prop+"/"+f.Kind]++
		kept++
		fr := FailureRec{Prop: f.Prop, Kind: f.Kind, Msg: f.Msg, Seed: *fSeed, Program: i, Step: f.Step}
		if k == 0 && keepTrace {
			fr.Trace = s.Trace.String()
		}
		rep.Failures = append(rep.Failures, fr)
	}
	if len(rep.Samples) < 2 && s.Step > 10 {
		t := s.Trace.String()
		if len(t) > 1500 {
			t = t[:1500] + "..."
		}
		rep.Samples = append(rep.Samples, t)
	}
}

func runEngine(rep *Report) {
	tw, done := traceWriter()
	defer done()
	for i := 0; i < *fN; i++ {
		if !startProgram(i) {
			continue
		}
		ps := progSeed(*fSeed, i)
		r := &engine.RNG{S: ps}
		cfg := engine.RandomConfig(r)
		p := engine.DefaultParams()
		if *fTier == "thorough" {
			p.Txs = 30
		}
		if i%5 == 4 && cfg.MaxPages > 0 {
			// full bounded files with the overflow area in use (meta pages beyond the limit), reopened often
			p.Overflow, p.Reopen, p.KeepFill, p.BigAlloc = 50, 30, 95, 30
		}
		if i%10 == 7 {
			// a bounded file driven into "overflow area beyond the limit, data end below the limit", then reopened
			if cfg.MaxPages == 0 {
				cfg.MaxPages = uint64(65536/cfg.PageSize) + uint64(r.Intn(40))
				if uint64(cfg.InitMeta) >= cfg.MaxPages-2 {
					cfg.InitMeta = 4
				}
			}
			q := p
			q.Txs = 2 + r.Intn(3)
			s := engine.NewSession(cfg)
			if s.Open() == "ok" {
				s.Continue(r, q)
				s.OverflowGap(r)
				if s.F != nil {
					s.Continue(r, q)
				}
			}
			s.Finish()
			collect(rep, s, i, ps, tw, len(rep.Failures) < 5)
			continue
		}
		s := engine.RunProgram(r, cfg, p)
		s.Finish()
		collect(rep, s, i, ps, tw, len(rep.Failures) < 5)
	}
}
