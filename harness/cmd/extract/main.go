// Command extract re-reads go-txfile's sources (go/parser, no type checking)
// and regenerates TxVerif/Gen/Facts.lean: constants, struct layouts, the
// lock/cleanup skeletons of the functions that take and release locks, the
// order of the commit steps, API guards and the sort used by the writer.
// The Lean side (TxVerif/Tie) proves these regenerated facts equal to what the
// model assumes.
package main

import (
	"flag"
	"fmt"
	"go/ast"
	"go/parser"
	"go/printer"
	"go/token"
	"os"
	"path/filepath"
	"sort"
	"strconv"
	"strings"
)

var fset = token.NewFileSet()

type pkgInfo struct {
	files map[string]*ast.File
	funcs map[string]*ast.FuncDecl // "Recv.Name" or "Name"
}

func load(dir string) *pkgInfo {
	p := &pkgInfo{files: map[string]*ast.File{}, funcs: map[string]*ast.FuncDecl{}}
	names, _ := filepath.Glob(filepath.Join(dir, "*.go"))
	sort.Strings(names)
	for _, n := range names {
		base := filepath.Base(n)
		if strings.HasSuffix(base, "_test.go") || strings.HasPrefix(base, "verif_") || strings.Contains(base, "windows") {
			continue
		}
		f, err := parser.ParseFile(fset, n, nil, 0)
		if err != nil {
			fmt.Fprintln(os.Stderr, "parse:", err)
			os.Exit(1)
		}
		p.files[base] = f
		for _, d := range f.Decls {
			if fd, ok := d.(*ast.FuncDecl); ok {
				name := fd.Name.Name
				if fd.Recv != nil && len(fd.Recv.List) > 0 {
					name = recvName(fd.Recv.List[0].Type) + "." + name
				}
				p.funcs[name] = fd
			}
		}
	}
	return p
}

func recvName(e ast.Expr) string {
	switch t := e.(type) {
	case *ast.StarExpr:
		return recvName(t.X)
	case *ast.Ident:
		return t.Name
	}
	return "?"
}

func src(n ast.Node) string {
	var sb strings.Builder
	printer.Fprint(&sb, fset, n)
	return strings.Join(strings.Fields(sb.String()), " ")
}

// constant values (integer literals and simple shifts) by name
func (p *pkgInfo) consts() map[string]string {
	out := map[string]string{}
	for _, f := range p.files {
		for _, d := range f.Decls {
			gd, ok := d.(*ast.GenDecl)
			if !ok || gd.Tok != token.CONST {
				continue
			}
			for _, s := range gd.Specs {
				vs := s.(*ast.ValueSpec)
				for i, n := range vs.Names {
					if i < len(vs.Values) {
						out[n.Name] = src(vs.Values[i])
					}
				}
			}
		}
	}
	return out
}

func evalConst(c map[string]string, name string, depth int) (uint64, bool) {
	v, ok := c[name]
	if !ok || depth > 8 {
		return 0, false
	}
	return evalExpr(c, v, depth)
}

func evalExpr(c map[string]string, v string, depth int) (uint64, bool) {
	v = strings.TrimSpace(v)
	if n, err := strconv.ParseUint(v, 0, 64); err == nil {
		return n, true
	}
	if strings.HasPrefix(v, "(") && strings.HasSuffix(v, ")") && balanced(v[1:len(v)-1]) {
		return evalExpr(c, v[1:len(v)-1], depth+1)
	}
	for _, op := range []string{" - ", " + ", " << "} {
		if i := strings.LastIndex(v, op); i > 0 {
			a, ok1 := evalExpr(c, v[:i], depth+1)
			b, ok2 := evalExpr(c, v[i+len(op):], depth+1)
			if ok1 && ok2 {
				switch op {
				case " - ":
					return a - b, true
				case " + ":
					return a + b, true
				default:
					return a << b, true
				}
			}
		}
	}
	return evalConst(c, v, depth+1)
}

func balanced(s string) bool {
	d := 0
	for _, ch := range s {
		if ch == '(' {
			d++
		} else if ch == ')' {
			d--
			if d < 0 {
				return false
			}
		}
	}
	return d == 0
}

// struct layout: field names with byte sizes
func (p *pkgInfo) layout(name string) [][2]string {
	size := map[string]string{"u8": "1", "u16": "2", "u32": "4", "u64": "8", "pgID": "8", "i8": "1", "i16": "2", "i32": "4", "i64": "8", "pos": "16"}
	var out [][2]string
	for _, f := range p.files {
		ast.Inspect(f, func(n ast.Node) bool {
			ts, ok := n.(*ast.TypeSpec)
			if !ok || ts.Name.Name != name {
				return true
			}
			st, ok := ts.Type.(*ast.StructType)
			if !ok {
				return true
			}
			for _, fl := range st.Fields.List {
				t := src(fl.Type)
				sz, ok := size[t]
				if !ok {
					sz = "0"
				}
				for _, n := range fl.Names {
					out = append(out, [2]string{n.Name, sz})
				}
			}
			return false
		})
	}
	return out
}

// ---------------------------------------------------------------------------
// skeletons: the ordered lock / cleanup / return events of a function body

var lockWords = []string{"Lock()", "Unlock()", "cleanup.IfNot", "tx.close()", "rollbackChanges", "return", "file.Close", "f.Close"}

func isInteresting(s string) bool {
	for _, w := range lockWords {
		if strings.Contains(s, w) {
			return true
		}
	}
	return false
}

// skeleton flattens a function body into events. Nested blocks are entered;
// `if` bodies are wrapped in "if{" … "}" markers so early returns stay visible.
func skeleton(fd *ast.FuncDecl) []string {
	var out []string
	var walk func(list []ast.Stmt)
	walk = func(list []ast.Stmt) {
		for _, st := range list {
			switch s := st.(type) {
			case *ast.DeferStmt:
				out = append(out, "defer "+src(s.Call))
			case *ast.ReturnStmt:
				out = append(out, "return")
			case *ast.IfStmt:
				if s.Init != nil {
					if t := src(s.Init); isInteresting(t) {
						out = append(out, "call "+t)
					}
				}
				out = append(out, "if{")
				walk(s.Body.List)
				out = append(out, "}")
				if s.Else != nil {
					out = append(out, "else{")
					switch e := s.Else.(type) {
					case *ast.BlockStmt:
						walk(e.List)
					case *ast.IfStmt:
						walk([]ast.Stmt{e})
					}
					out = append(out, "}")
				}
			case *ast.BlockStmt:
				walk(s.List)
			case *ast.ExprStmt:
				if t := src(s.X); isInteresting(t) {
					out = append(out, "call "+t)
				}
			case *ast.AssignStmt:
				t := src(s)
				if isInteresting(t) || strings.Contains(t, "OK =") || strings.Contains(t, "ok =") || strings.Contains(t, "OK :=") || strings.Contains(t, "ok :=") {
					out = append(out, "assign "+t)
				}
			}
		}
	}
	if fd != nil && fd.Body != nil {
		walk(fd.Body.List)
	}
	return out
}

// lockKind names the lock a call text refers to
func lockKind(t string) string {
	l := strings.ToLower(t)
	switch {
	case strings.Contains(l, "reserved"):
		return "reserved"
	case strings.Contains(l, "pending"):
		return "pending"
	case strings.Contains(l, "exclusive"):
		return "exclusive"
	case strings.Contains(l, "shared"):
		return "shared"
	case strings.HasPrefix(t, "file.") || strings.HasPrefix(t, "f.file."):
		return "pathlock"
	case strings.HasPrefix(t, "tx.lock.") || strings.HasPrefix(t, "lock."):
		return "txlock"
	}
	return "other:" + t
}

// callEv classifies a call expression text; ok=false if it is irrelevant
func callEv(t string, deferred bool) (string, bool) {
	q := func(s string) string { return strconv.Quote(s) }
	switch {
	case strings.HasPrefix(t, "cleanup.IfNot(&"):
		rest := t[len("cleanup.IfNot(&"):]
		i := strings.Index(rest, ",")
		if i < 0 {
			return "", false
		}
		flag := rest[:i]
		fn := strings.TrimSuffix(strings.TrimSpace(rest[i+1:]), ")")
		fn = strings.TrimPrefix(fn, "cleanup.IgnoreError(")
		fn = strings.TrimSuffix(fn, ")")
		if strings.HasPrefix(fn, "func()") {
			fn = "closure"
		}
		return fmt.Sprintf(".deferIfNot %s %s", q(flag), q(fn)), true
	case strings.HasSuffix(t, ".Lock()") || strings.Contains(t, ".Lock(true"):
		if deferred {
			return ".deferLock " + q(lockKind(t)), true
		}
		return ".lock " + q(lockKind(t)), true
	case strings.HasSuffix(t, ".Unlock()"):
		if deferred {
			return ".deferUnlock " + q(lockKind(t)), true
		}
		return ".unlock " + q(lockKind(t)), true
	}
	for _, k := range []string{"tx.finishWith(", "tx.close()", "f.beginTx(", "openWith(", "osfs.Open(", "f.Close()", "file.Close()", "f.file.Close()", "tx.rollbackChanges", "fn(tx)", "fn()", "tx.tryCommitChanges()", "tx.writeSync.Wait()"} {
		if strings.Contains(t, k) {
			name := strings.TrimSuffix(strings.TrimSuffix(k, "()"), "(")
			if deferred {
				return ".deferCall " + q(name), true
			}
			return ".call " + q(name), true
		}
	}
	return "", false
}

// skeletonEv renders the body as Lean `Ev` constructors.
func skeletonEv(fd *ast.FuncDecl) []string {
	var out []string
	add := func(t string, deferred bool) {
		if e, ok := callEv(t, deferred); ok {
			out = append(out, e)
		}
	}
	var exprCalls func(e ast.Expr)
	exprCalls = func(e ast.Expr) {
		ast.Inspect(e, func(n ast.Node) bool {
			if _, ok := n.(*ast.FuncLit); ok {
				return false
			}
			if ce, ok := n.(*ast.CallExpr); ok {
				add(src(ce), false)
				return false
			}
			return true
		})
	}
	var walk func(list []ast.Stmt)
	walk = func(list []ast.Stmt) {
		for _, st := range list {
			switch s := st.(type) {
			case *ast.DeferStmt:
				add(src(s.Call), true)
			case *ast.ReturnStmt:
				for _, r := range s.Results {
					exprCalls(r)
				}
				out = append(out, ".ret")
			case *ast.IfStmt:
				// `if err := call(); err != nil { … }`: on the error branch the call
				// failed and had no effect, so its effect is placed after the branch
				var initCalls []ast.Expr
				errBranch := strings.Contains(src(s.Cond), "!= nil")
				if s.Init != nil {
					if as, ok := s.Init.(*ast.AssignStmt); ok {
						for _, r := range as.Rhs {
							if errBranch {
								initCalls = append(initCalls, r)
							} else {
								exprCalls(r)
							}
						}
					}
				}
				out = append(out, ".ifOpen")
				walk(s.Body.List)
				out = append(out, ".ifClose")
				for _, r := range initCalls {
					exprCalls(r)
				}
				if s.Else != nil {
					out = append(out, ".elseOpen")
					switch e := s.Else.(type) {
					case *ast.BlockStmt:
						walk(e.List)
					case *ast.IfStmt:
						walk([]ast.Stmt{e})
					}
					out = append(out, ".elseClose")
				}
			case *ast.BlockStmt:
				walk(s.List)
			case *ast.ExprStmt:
				exprCalls(s.X)
			case *ast.AssignStmt:
				if len(s.Lhs) == 1 {
					lhs := src(s.Lhs[0])
					rhs := src(s.Rhs[0])
					low := strings.ToLower(lhs)
					if strings.HasSuffix(low, "ok") && !strings.Contains(lhs, ".") {
						v := "cond"
						if rhs == "true" || rhs == "false" {
							v = rhs
						}
						out = append(out, fmt.Sprintf(".setFlag %s %s", strconv.Quote(lhs), strconv.Quote(v)))
						continue
					}
				}
				for _, r := range s.Rhs {
					exprCalls(r)
				}
			}
		}
	}
	if fd != nil && fd.Body != nil {
		walk(fd.Body.List)
	}
	return out
}

// callOrder lists the calls of a function in source order whose text contains one of the keys
func callOrder(fd *ast.FuncDecl, keys []string) []string {
	var out []string
	if fd == nil {
		return out
	}
	ast.Inspect(fd.Body, func(n ast.Node) bool {
		ce, ok := n.(*ast.CallExpr)
		if !ok {
			return true
		}
		t := src(ce.Fun)
		for _, k := range keys {
			if strings.Contains(t, k) {
				arg := ""
				if k == "Sync" && len(ce.Args) > 1 {
					arg = "(" + src(ce.Args[1]) + ")"
				}
				out = append(out, t+arg)
				break
			}
		}
		return true
	})
	return out
}

// flow lists, in source order, the calls whose callee contains one of callKeys and the conditions of
// the if statements that contain one of condKeys: the control skeleton of a repaired function.
func flow(fd *ast.FuncDecl, callKeys, condKeys []string) []string {
	var out []string
	if fd == nil || fd.Body == nil {
		return []string{"missing"}
	}
	ast.Inspect(fd.Body, func(n ast.Node) bool {
		switch x := n.(type) {
		case *ast.CallExpr:
			t := src(x.Fun)
			for _, k := range callKeys {
				if strings.Contains(t, k) {
					out = append(out, t)
					break
				}
			}
		case *ast.IfStmt:
			c := src(x.Cond)
			for _, k := range condKeys {
				if strings.Contains(c, k) {
					out = append(out, "if("+c+")")
					break
				}
			}
		}
		return true
	})
	return out
}

// firstGuard returns the first statement of an exported method, normalised
func firstGuard(fd *ast.FuncDecl) string {
	if fd == nil || fd.Body == nil {
		return "missing"
	}
	for _, st := range fd.Body.List {
		t := src(st)
		if strings.HasPrefix(t, "const ") || strings.HasPrefix(t, "tracef(") || strings.HasPrefix(t, "traceln(") {
			continue
		}
		for _, g := range []string{"canWrite", "canRead", "finishWith", "flags.active", "getPage", "active", "isClosed", "n == 0"} {
			if strings.Contains(t, g) {
				return g
			}
		}
		return "none"
	}
	return "none"
}

func leanStr(s string) string { return strconv.Quote(s) }

func leanList(ss []string) string {
	q := make([]string, len(ss))
	for i, s := range ss {
		q[i] = leanStr(s)
	}
	return "[" + strings.Join(q, ", ") + "]"
}

func main() {
	repo := flag.String("repo", "/repo", "repository root")
	out := flag.String("out", "", "output file")
	flag.Parse()

	p := load(*repo)
	q := load(filepath.Join(*repo, "pq"))
	var sb strings.Builder
	w := func(format string, a ...interface{}) { fmt.Fprintf(&sb, format+"\n", a...) }

	w("/- GENERATED by harness/cmd/extract from the Go sources of /repo. Do not edit. -/")
	w("import TxVerif.Model.Skeleton")
	w("namespace TxVerif.Facts")
	w("open TxVerif")
	w("")
	c := p.consts()
	for _, n := range []string{"magic", "version", "minPageSize", "entryBits", "entryOverflow", "walEntrySize", "defaultWALLimit", "defaultMetaGrowPercentage", "maxRegionEncSz", "initBits", "metaFlagPrealloc"} {
		if v, ok := evalConst(c, n, 0); ok {
			w("def const_%s : Nat := %d", n, v)
		} else {
			w("def const_%s : Nat := 0 -- not found / not evaluable: %s", n, c[n])
		}
	}
	qc := q.consts()
	for _, n := range []string{"queueVersion", "defaultMinPages"} {
		if v, ok := evalConst(qc, n, 0); ok {
			w("def pq_const_%s : Nat := %d", n, v)
		} else {
			w("def pq_const_%s : Nat := 0", n)
		}
	}
	w("")
	lay := func(pk *pkgInfo, prefix, name string) {
		l := pk.layout(name)
		var items []string
		for _, f := range l {
			items = append(items, fmt.Sprintf("(%s, %s)", leanStr(f[0]), f[1]))
		}
		w("def %slayout_%s : List (String × Nat) := [%s]", prefix, name, strings.Join(items, ", "))
	}
	lay(p, "", "metaPage")
	lay(p, "", "listPage")
	lay(q, "pq_", "queuePage")
	lay(q, "pq_", "pos")
	lay(q, "pq_", "eventPage")
	lay(q, "pq_", "eventHeader")
	w("")
	// checksum coverage: the field named in Offsetof(metaPage{}.X)
	cov := "?"
	if fd := p.funcs["metaPage.computeChecksum"]; fd != nil {
		t := src(fd.Body)
		if i := strings.Index(t, "unsafe.Offsetof(metaPage{}."); i >= 0 {
			rest := t[i+len("unsafe.Offsetof(metaPage{}."):]
			cov = rest[:strings.Index(rest, ")")]
		}
		if !strings.Contains(t, "fnv.New32a()") {
			cov = "not-fnv32a:" + cov
		}
	}
	w("def checksumCoversUpTo : String := %s", leanStr(cov))
	// Validate checks, in order
	var vchecks []string
	if fd := p.funcs["metaPage.Validate"]; fd != nil {
		for _, st := range fd.Body.List {
			if is, ok := st.(*ast.IfStmt); ok {
				vchecks = append(vchecks, src(is.Cond))
			}
		}
	}
	w("def validateChecks : List String := %s", leanList(vchecks))
	w("")
	// writer sort
	sortFn := "?"
	if fd := p.funcs["writer.Run"]; fd != nil {
		ast.Inspect(fd.Body, func(n ast.Node) bool {
			if ce, ok := n.(*ast.CallExpr); ok {
				if t := src(ce.Fun); strings.HasPrefix(t, "sort.") {
					sortFn = t
				}
			}
			return true
		})
	}
	w("def writerSort : String := %s", leanStr(sortFn))
	w("")
	for _, fn := range []string{"File.beginTx", "Tx.close", "Tx.finishWith", "Tx.commitChanges", "Tx.tryCommitChanges", "withInitTx", "File.Close", "Open", "openWith", "Tx.Rollback", "Tx.Close", "Tx.Commit"} {
		id := strings.ReplaceAll(fn, ".", "_")
		w("def skel_%s : List String := %s", id, leanList(skeleton(p.funcs[fn])))
		w("def ev_%s : List Ev := [%s]", id, strings.Join(skeletonEv(p.funcs[fn]), ", "))
	}
	w("")
	keys := []string{"flushPages", "commitPrepareWAL", "commitPrepareAlloc", "tryCommitChangesToFile", "writeSync.Wait", "allocator.Commit", "exclusive.Lock", "pending.Lock", "wal.Commit", "fileCommitAlloc", "fileCommitSerialize", "writer.Sync", "fileCommitMeta", "syncNewMeta", "writer.Schedule", "Finalize", "truncate", "mmapUpdate"}
	w("def order_tryCommitChanges : List String := %s", leanList(callOrder(p.funcs["Tx.tryCommitChanges"], keys)))
	w("def order_tryCommitChangesToFile : List String := %s", leanList(callOrder(p.funcs["Tx.tryCommitChangesToFile"], keys)))
	w("def order_syncNewMeta : List String := %s", leanList(callOrder(p.funcs["Tx.syncNewMeta"], keys)))
	// queue: each flush and each ACK is one write transaction
	qkeys := []string{"BeginWrite", "BeginCleanup", "BeginRead", "tx.Commit", "tx.Close", "allocatePages", "flushPages", "updateRootHdr", "page.Free", "LoadRootPage", "initACK", "ackCB", "flushCB"}
	w("def pq_order_doFlush : List String := %s", leanList(callOrder(q.funcs["Writer.doFlush"], qkeys)))
	w("def pq_order_cleanup : List String := %s", leanList(callOrder(q.funcs["acker.cleanup"], qkeys)))
	w("def pq_order_initACK : List String := %s", leanList(callOrder(q.funcs["acker.initACK"], qkeys)))
	w("def pq_order_flushBuffer : List String := %s", leanList(callOrder(q.funcs["Writer.flushBuffer"], append(qkeys, "doFlush"))))
	// the switch of the active meta page must come after exclusive.Lock: record statement order
	var sw []string
	if fd := p.funcs["Tx.tryCommitChanges"]; fd != nil {
		for _, st := range fd.Body.List {
			t := src(st)
			switch {
			case strings.Contains(t, "exclusive.Lock()") && !strings.HasPrefix(t, "defer"):
				sw = append(sw, "exclusive.Lock")
			case strings.HasPrefix(t, "tx.file.metaActive ="):
				sw = append(sw, "switch-meta")
			case strings.HasPrefix(t, "tx.file.wal.Commit("):
				sw = append(sw, "switch-wal")
			case strings.HasPrefix(t, "tx.file.allocator.Commit("):
				sw = append(sw, "commit-alloc")
			case strings.Contains(t, "pending.Lock()") && !strings.HasPrefix(t, "defer"):
				sw = append(sw, "pending.Lock")
			case strings.Contains(t, "tx.writeSync.Wait()") && strings.HasPrefix(t, "err ="):
				sw = append(sw, "wait-synced")
			}
		}
	}
	w("def order_switch : List String := %s", leanList(sw))
	// control skeletons of the functions repaired by `fix:` commits (a lost half of a repair breaks a tie at once)
	w("def fix_syncNewMeta : List String := %s", leanList(flow(p.funcs["Tx.syncNewMeta"], []string{"Finalize", "writer.Schedule", "writer.Sync", "updateMetaCopy"}, nil)))
	w("def fix_restoreMeta : List String := %s", leanList(flow(p.funcs["Tx.restoreMeta"], []string{"writer.Schedule", "writer.Sync", "updateMetaCopy"}, nil)))
	w("def fix_rollbackChanges : List String := %s", leanList(flow(p.funcs["Tx.rollbackChanges"], []string{"writeSync.Wait", "writer.Sync", "allocator.Rollback", "file.Size", "file.Truncate"}, []string{"maxPages == 0", "dataEnd >", "endMarker"})))
	w("def fix_fileInit : List String := %s", leanList(flow(p.funcs["File.init"], []string{"readWALMapping", "readAllocatorState", "absorbOverflowArea"}, nil)))
	w("def fix_initTxMaxSize : List String := %s", leanList(flow(p.funcs["initTxMaxSize"], []string{"prepareMetaBuffer", "maxSize.Set", "dataEndWithOverflowArea", "dataEndMarker.Set", "syncNewMeta", "writeSync.Wait"}, []string{"err == nil", "err != nil"})))
	w("def fix_initTxReleaseRegions : List String := %s", leanList(flow(p.funcs["initTxReleaseRegions"], []string{"fileCommitAlloc", "fileCommitSerialize", "fileCommitMeta", "syncNewMeta", "writeSync.Wait", "allocator.Commit"}, []string{"err != nil"})))
	w("def fix_dataEndWithOverflowArea : List String := %s", leanList(flow(p.funcs["allocator.dataEndWithOverflowArea"], nil, []string{"dataEnd", "first", "maxPages"})))
	w("def fix_openWith : List String := %s", leanList(flow(p.funcs["openWith"], []string{"growFile", "shrinkFile", "newFile"}, []string{"MaxSize", "maxSize"})))
	w("def fix_txAccess : List String := %s", leanList(flow(p.funcs["Tx.access"], []string{"mmapedPage", "readPage", "ReadAt"}, nil)))
	w("def fix_munmap : List String := %s", leanList(flow(p.funcs["File.munmap"], []string{"MUnmap", "copyMeta", "metaCopy"}, []string{"meta"})))
	w("def pq_fix_initACK : List String := %s", leanList(flow(q.funcs["acker.initACK"], nil, []string{"pending", "endPos", "startID", "uint64(n)"})))
	w("def pq_fix_unassignPages : List String := %s", leanList(flow(q.funcs["unassignPages"], nil, []string{"nil"})))
	w("")
	// guards
	var guards []string
	for _, fn := range []string{"Tx.Rollback", "Tx.Commit", "Tx.Close", "Tx.CheckpointWAL", "Tx.Page", "Tx.getPage", "Tx.RootPage", "Tx.Alloc", "Tx.AllocN", "Tx.Flush", "Tx.flushPages",
		"Page.MarkDirty", "Page.Free", "Page.Bytes", "Page.Load", "Page.SetBytes", "Page.Flush"} {
		guards = append(guards, fmt.Sprintf("(%s, %s)", leanStr(fn), leanStr(firstGuard(p.funcs[fn]))))
	}
	w("def guards : List (String × String) := [%s]", strings.Join(guards, ", "))
	var qguards []string
	for _, fn := range []string{"Writer.Write", "Writer.Next", "Writer.Flush", "Reader.Available", "Reader.Begin", "Reader.Read", "Reader.Next", "acker.handle"} {
		qguards = append(qguards, fmt.Sprintf("(%s, %s)", leanStr(fn), leanStr(firstGuard(q.funcs[fn]))))
	}
	w("def pq_guards : List (String × String) := [%s]", strings.Join(qguards, ", "))
	// does Tx.close clear fields the guards dereference?
	var cleared []string
	if fd := p.funcs["Tx.close"]; fd != nil {
		for _, st := range fd.Body.List {
			if as, ok := st.(*ast.AssignStmt); ok {
				cleared = append(cleared, src(as.Lhs[0]))
			}
		}
	}
	w("def txCloseClears : List String := %s", leanList(cleared))
	w("")
	w("end TxVerif.Facts")

	if *out == "" {
		fmt.Print(sb.String())
		return
	}
	if err := os.WriteFile(*out, []byte(sb.String()), 0o644); err != nil {
		fmt.Fprintln(os.Stderr, err)
		os.Exit(1)
	}
}
