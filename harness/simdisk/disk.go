// Package simdisk implements the vfs.File interface of go-txfile in memory:
// volatile contents with a coherent mmap view, a durable image plus the list of
// operations pending since the last completed sync (for crash images), an
// operation log, fault injection and writer stalls.
package simdisk

import (
	"errors"
	"fmt"
	"io"
	"sync"

	txfile "github.com/elastic/go-txfile"
)

// OpKind enumerates logged operations.
type OpKind uint8

const (
	OpWrite OpKind = iota
	OpSync
	OpTruncate
	OpMark // inserted by the harness, no effect
	OpSyncFail // a sync that reported an error (what it made durable is unknown to the caller)
)

// Op is one logged vfs level operation.
type Op struct {
	Kind  OpKind
	Off   int64  // write offset / truncate size
	Data  []byte // copy of written data
	Label string // for OpMark
}

// Action is the outcome a fault plan selects for a call.
type Action uint8

const (
	ActOK    Action = iota
	ActErr          // fail before any effect
	ActShort        // (write) persist a prefix, then fail
	ActAfter        // perform the effect, then fail (sync)
)

// ErrInjected is returned by injected faults.
var ErrInjected = errors.New("simdisk: injected I/O error")

// ErrLocked is returned if the file is already locked.
var ErrLocked = errors.New("simdisk: file already locked")

// FaultFn decides the fate of a call. kind is one of
// write|sync|truncate|size|mmap|read; n counts calls of that kind, total all calls.
type FaultFn func(kind string, n, total int) Action

// ErrUnmapNil is returned by MUnmap for an empty mapping when StrictUnmap is set.
var ErrUnmapNil = fmt.Errorf("simdisk: munmap of an empty range (EINVAL)")

// Disk is an in-memory file.
type Disk struct {
	mu   sync.Mutex
	name string

	data []byte // volatile contents, len == file size
	view []byte // current mmap view (nil if unmapped)

	durable []byte // contents as of the last completed sync
	npend   int    // index into Log of first op after the last completed sync

	Log     []Op
	KeepLog bool

	locked bool
	closed bool

	total int
	kinds map[string]int
	fault FaultFn

	gate    chan struct{} // if non-nil WriteAt blocks until closed
	stalled int           // number of writes currently blocked

	MaxExtent int64 // largest offset+len ever written or truncated to
	Poison    bool  // poison views on unmap
	StrictUnmap bool // MUnmap of an empty slice fails like munmap(2)

	Calls map[string]int // successful + failed calls by kind (for evidence)
}

// New creates an empty file.
func New(name string) *Disk {
	return &Disk{name: name, kinds: map[string]int{}, KeepLog: true, Poison: true, Calls: map[string]int{}}
}

// FromImage creates a file whose volatile and durable contents are img.
func FromImage(name string, img []byte) *Disk {
	d := New(name)
	d.data = append([]byte(nil), img...)
	d.durable = append([]byte(nil), img...)
	return d
}

// SetFault installs a fault plan (nil removes it).
func (d *Disk) SetFault(f FaultFn) { d.mu.Lock(); d.fault = f; d.mu.Unlock() }

// CallCounts returns the number of calls seen so far by kind.
func (d *Disk) CallCounts() (map[string]int, int) {
	d.mu.Lock()
	defer d.mu.Unlock()
	m := map[string]int{}
	for k, v := range d.kinds {
		m[k] = v
	}
	return m, d.total
}

func (d *Disk) act(kind string) Action {
	n := d.kinds[kind]
	d.kinds[kind] = n + 1
	t := d.total
	d.total++
	d.Calls[kind]++
	if d.fault == nil {
		return ActOK
	}
	return d.fault(kind, n, t)
}

// Stall makes subsequent WriteAt calls block until Release is called.
func (d *Disk) Stall() {
	d.mu.Lock()
	if d.gate == nil {
		d.gate = make(chan struct{})
	}
	d.mu.Unlock()
}

// Release unblocks stalled writes.
func (d *Disk) Release() {
	d.mu.Lock()
	if d.gate != nil {
		close(d.gate)
		d.gate = nil
	}
	d.mu.Unlock()
}

// Stalled reports how many writes are currently blocked.
func (d *Disk) Stalled() int { d.mu.Lock(); defer d.mu.Unlock(); return d.stalled }

// Mark appends a harness marker to the log.
func (d *Disk) Mark(label string) {
	d.mu.Lock()
	if d.KeepLog {
		d.Log = append(d.Log, Op{Kind: OpMark, Label: label})
	}
	d.mu.Unlock()
}

// LogLen returns the current log length.
func (d *Disk) LogLen() int { d.mu.Lock(); defer d.mu.Unlock(); return len(d.Log) }

// Name implements vfs.File.
func (d *Disk) Name() string { return d.name }

// Close implements vfs.File. Closing releases the lock (like flock).
func (d *Disk) Close() error {
	d.mu.Lock()
	defer d.mu.Unlock()
	d.closed = true
	d.locked = false
	return nil
}

// Closed reports whether Close was called.
func (d *Disk) Closed() bool { d.mu.Lock(); defer d.mu.Unlock(); return d.closed }

// Reopen clears the closed flag (a new descriptor on the same file).
func (d *Disk) Reopen() { d.mu.Lock(); d.closed = false; d.mu.Unlock() }

// Locked reports the advisory lock state.
func (d *Disk) Locked() bool { d.mu.Lock(); defer d.mu.Unlock(); return d.locked }

// Lock implements vfs.File.
func (d *Disk) Lock(exclusive, blocking bool) error {
	d.mu.Lock()
	defer d.mu.Unlock()
	if d.act("lock") == ActErr {
		return ErrInjected
	}
	if d.locked {
		return ErrLocked
	}
	d.locked = true
	return nil
}

// Unlock implements vfs.File.
func (d *Disk) Unlock() error {
	d.mu.Lock()
	defer d.mu.Unlock()
	d.locked = false
	return nil
}

// Size implements vfs.File.
func (d *Disk) Size() (int64, error) {
	d.mu.Lock()
	defer d.mu.Unlock()
	if d.act("size") != ActOK {
		return 0, ErrInjected
	}
	return int64(len(d.data)), nil
}

func (d *Disk) resize(sz int64) {
	old := int64(len(d.data))
	if sz <= old {
		d.data = d.data[:sz]
		if d.view != nil {
			for i := sz; i < old && i < int64(len(d.view)); i++ {
				d.view[i] = 0
			}
		}
		return
	}
	if int64(cap(d.data)) >= sz {
		d.data = d.data[:sz]
		for i := old; i < sz; i++ {
			d.data[i] = 0
		}
		return
	}
	nd := make([]byte, sz, sz+sz/2+4096)
	copy(nd, d.data)
	d.data = nd
}

// Truncate implements vfs.File.
func (d *Disk) Truncate(sz int64) error {
	d.mu.Lock()
	defer d.mu.Unlock()
	if d.act("truncate") != ActOK {
		return ErrInjected
	}
	if sz < 0 {
		return fmt.Errorf("simdisk: negative size")
	}
	d.resize(sz)
	if sz > d.MaxExtent {
		d.MaxExtent = sz
	}
	if d.KeepLog {
		d.Log = append(d.Log, Op{Kind: OpTruncate, Off: sz})
	}
	return nil
}

// ReadAt implements io.ReaderAt.
func (d *Disk) ReadAt(p []byte, off int64) (int, error) {
	d.mu.Lock()
	defer d.mu.Unlock()
	if d.act("read") != ActOK {
		return 0, ErrInjected
	}
	if off >= int64(len(d.data)) {
		return 0, io.EOF
	}
	n := copy(p, d.data[off:])
	if n < len(p) {
		return n, io.EOF
	}
	return n, nil
}

// WriteAt implements io.WriterAt.
func (d *Disk) WriteAt(p []byte, off int64) (int, error) {
	d.mu.Lock()
	if g := d.gate; g != nil {
		d.stalled++
		d.mu.Unlock()
		<-g
		d.mu.Lock()
		d.stalled--
	}
	defer d.mu.Unlock()

	a := d.act("write")
	switch a {
	case ActErr, ActAfter:
		if a == ActErr {
			return 0, ErrInjected
		}
	case ActShort:
		p = p[:len(p)/2]
	}
	end := off + int64(len(p))
	if end > int64(len(d.data)) {
		d.resize(end)
	}
	copy(d.data[off:end], p)
	if d.view != nil && off < int64(len(d.view)) {
		copy(d.view[off:], p)
	}
	if end > d.MaxExtent {
		d.MaxExtent = end
	}
	if d.KeepLog {
		d.Log = append(d.Log, Op{Kind: OpWrite, Off: off, Data: append([]byte(nil), p...)})
	}
	if a == ActShort || a == ActAfter {
		return len(p), ErrInjected
	}
	return len(p), nil
}

// Sync implements vfs.File.
func (d *Disk) Sync(flags txfile.VerifSyncFlag) error {
	d.mu.Lock()
	defer d.mu.Unlock()
	a := d.act("sync")
	if a == ActErr || a == ActShort {
		if d.KeepLog {
			d.Log = append(d.Log, Op{Kind: OpSyncFail})
		}
		return ErrInjected
	}
	d.durable = append(d.durable[:0], d.data...)
	if d.KeepLog {
		d.Log = append(d.Log, Op{Kind: OpSync})
	}
	d.npend = len(d.Log)
	if a == ActAfter {
		if d.KeepLog {
			// everything became durable, but the caller is told the sync failed
			d.Log[len(d.Log)-1].Kind = OpSyncFail
			d.Log[len(d.Log)-1].Label = "after"
		}
		return ErrInjected
	}
	return nil
}

// MMap implements vfs.File: a fresh view, kept coherent by WriteAt/Truncate.
func (d *Disk) MMap(sz int) ([]byte, error) {
	d.mu.Lock()
	defer d.mu.Unlock()
	if d.act("mmap") != ActOK {
		return nil, ErrInjected
	}
	v := make([]byte, sz)
	copy(v, d.data)
	d.view = v
	return v, nil
}

// MUnmap implements vfs.File. Unmapped views are poisoned, so a use after
// unmap shows up as garbage.
func (d *Disk) MUnmap(b []byte) error {
	d.mu.Lock()
	defer d.mu.Unlock()
	if d.act("munmap") == ActErr {
		return ErrInjected
	}
	if len(b) == 0 {
		if d.StrictUnmap {
			return ErrUnmapNil // munmap(2) of an empty range fails with EINVAL
		}
		return nil
	}
	if d.view != nil && len(d.view) > 0 && &b[0] == &d.view[0] {
		d.view = nil
	}
	if d.Poison {
		for i := range b {
			b[i] = 0xDB
		}
	}
	return nil
}

// Contents returns a copy of the volatile contents.
func (d *Disk) Contents() []byte {
	d.mu.Lock()
	defer d.mu.Unlock()
	return append([]byte(nil), d.data...)
}

// Durable returns a copy of the durable image.
func (d *Disk) Durable() []byte {
	d.mu.Lock()
	defer d.mu.Unlock()
	return append([]byte(nil), d.durable...)
}

// LogCopy returns a copy of the operation log (data slices shared, read-only).
func (d *Disk) LogCopy() []Op {
	d.mu.Lock()
	defer d.mu.Unlock()
	return append([]Op(nil), d.Log...)
}

// Apply applies one logged operation to an image and returns the new image.
func Apply(img []byte, op Op) []byte {
	switch op.Kind {
	case OpWrite:
		end := op.Off + int64(len(op.Data))
		if end > int64(len(img)) {
			img = append(img, make([]byte, end-int64(len(img)))...)
		}
		copy(img[op.Off:end], op.Data)
	case OpTruncate:
		if op.Off <= int64(len(img)) {
			img = img[:op.Off]
		} else {
			img = append(img, make([]byte, op.Off-int64(len(img)))...)
		}
	}
	return img
}

var _ txfile.VerifFile = (*Disk)(nil)
