#!/bin/sh
# usage: tools/seedtest.sh <patch.diff> <check ids...>
# applies a seeded change to /repo, runs the given checks (quick), prints verdicts, undoes the change.
set -u
patch="$1"; shift
cd /repo || exit 2
if ! git diff --quiet; then echo "/repo has uncommitted changes"; exit 2; fi
git apply "$patch" || { echo "patch does not apply"; exit 2; }
export GOFLAGS=-mod=mod GOPROXY=off GOSUMDB=off
if ! go build ./... ; then echo "SEED does not compile"; git checkout -- .; exit 2; fi
cd /verif
# evidence files are rewritten by every run: keep the ones of the unchanged tree
evbak=$(mktemp -d /tmp/evbak.XXXXXX); cp evidence/*.json "$evbak"/ 2>/dev/null
sd=$(dirname "$patch"); log=/dev/null
case "$sd" in /verif/seeded/*) log="$sd/checks_${TIER:-quick}.log"; : > "$log";; esac
for c in "$@"; do
  out=$(./check "$c" ${TIER:-quick} 2>&1)
  rc=$?
  v=$(echo "$out" | grep -c '^VIOLATION')
  { echo "== $c rc=$rc violations=$v"
  echo "$out" | grep -E "VIOLATION|BROKEN|FAILURE|KNOWN" | cut -c1-300 | head -8; } | tee -a "$log"
done
cp "$evbak"/*.json /verif/evidence/ 2>/dev/null; rm -rf "$evbak"
cd /repo && git checkout -- . && git status --short | head -3
