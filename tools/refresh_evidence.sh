#!/bin/sh
# runs every check (quick tier) on the unchanged tree so that the committed evidence files describe it
cd /verif
if ! git -C /repo diff --quiet; then echo "/repo has uncommitted changes"; exit 2; fi
rc=0
for i in 01 02 03 04 05 06 07 08 09 10 11 12 13 14 15 16 17 18; do
  out=$(./check C$i quick 2>&1); r=$?
  echo "$out" | tail -1
  [ $r -ne 0 ] && rc=1
done
exit $rc
