#!/bin/sh
# usage: tools/seedverify.sh <worktree dir> <seed id>
# confirms a seeded change in its scratch worktree: suite passes with it, the demonstration fails with it and
# passes without it; then stores it under /verif/seeded/<id>/.
set -u
wt="$1"; id="$2"
export GOFLAGS=-mod=mod GOPROXY=off GOSUMDB=off GOTOOLCHAIN=local
cd "$wt" || exit 2
mkdir -p /tmp/seedv_$$ /verif/seeded/$id
{
demos=$(ls seed_demo*_test.go pq/seed_demo*_test.go 2>/dev/null)
# clean tree + patch
git checkout -- . 2>/dev/null
git apply seed_patch.diff || { echo "patch does not apply"; exit 2; }
for d in $demos; do mkdir -p /tmp/seedv_$$/$(dirname $d); mv $d /tmp/seedv_$$/$d; done
go build ./... || { echo "NO-COMPILE"; exit 1; }
if go test -vet=off -count=1 ./... > /tmp/seedv_$$/suite.log 2>&1; then echo "suite: PASS with change"; else echo "suite: FAIL with change"; tail -20 /tmp/seedv_$$/suite.log; fi
for d in $demos; do mv /tmp/seedv_$$/$d $d; done
pk=$(for d in $demos; do echo ./$(dirname $d); done | sort -u)
if go test -vet=off -count=1 -run 'TestSeedDemo' $pk > /tmp/seedv_$$/with.log 2>&1; then echo "demo: PASS with change (BAD)"; else echo "demo: FAIL with change (good)"; grep -E "^\s+.*_test.go|--- FAIL|panic" /tmp/seedv_$$/with.log | head -5; fi
git apply -R seed_patch.diff
if go test -vet=off -count=3 -run 'TestSeedDemo' $pk > /tmp/seedv_$$/without.log 2>&1; then echo "demo: PASS without change (good)"; else echo "demo: FAIL without change (BAD)"; tail -5 /tmp/seedv_$$/without.log; fi
git apply seed_patch.diff
mkdir -p /verif/seeded/$id
cp seed_patch.diff /verif/seeded/$id/patch.diff
for d in $demos; do cp $d /verif/seeded/$id/$(echo $d | tr / _).txt; done
cp seed_meta.json /verif/seeded/$id/agent_meta.json 2>/dev/null
cp /tmp/seedv_$$/with.log /verif/seeded/$id/demo_with_change.log
rm -rf /tmp/seedv_$$
} 2>&1 | tee /verif/seeded/$id/confirm.log
