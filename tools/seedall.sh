#!/bin/sh
# usage: tools/seedall.sh  — applies every stored seeded change to /repo in turn and runs the quick check of its property
cd /verif
for d in seeded/*/; do
  id=$(basename $d)
  prop=$(echo $id | cut -c1-3)
  out=$(tools/seedtest.sh /verif/seeded/$id/patch.diff $prop 2>&1)
  line=$(echo "$out" | grep "^== " | head -1)
  how=$(echo "$out" | grep -c "FAILURE")
  nf=$(echo "$out" | grep -c "no-failing-input-found")
  sup=""; [ -f seeded/$id/superseded.txt ] && sup="SUPERSEDED: $(cat seeded/$id/superseded.txt)"
  echo "$id $line failures_shown=$how no_failing_input=$nf $(echo "$out" | grep -E 'does not apply|not compile' | head -1) $sup"
done
