#!/usr/bin/env python3
"""writes /verif/seeded/<id>/meta.json from the agent's description, my own confirmation run
(tools/seedverify.sh) and the check runs (tools/seedtest.sh)."""
import json, os, re, sys
sid = sys.argv[1]
d = f"/verif/seeded/{sid}"
am = {}
if os.path.exists(f"{d}/agent_meta.json"):
    try: am = json.load(open(f"{d}/agent_meta.json"))
    except Exception as e: am = {"summary": "(agent meta unreadable)"}
conf = open(f"{d}/confirm.log").read().strip().splitlines() if os.path.exists(f"{d}/confirm.log") else []
checks = []
for tier in ("quick", "thorough"):
    f = f"{d}/checks_{tier}.log"
    if not os.path.exists(f): continue
    cur = None
    for line in open(f):
        m = re.match(r"== (\S+) rc=(\d+) violations=(\d+)", line)
        if m:
            cur = {"check": m.group(1), "tier": tier, "exit": int(m.group(2)), "violation_lines": int(m.group(3)), "output": []}
            checks.append(cur)
        elif cur is not None and len(cur["output"]) < 6:
            cur["output"].append(line.rstrip()[:240])
meta = {
    "seed": sid,
    "property": am.get("property", sid[:3]),
    "summary": am.get("summary", ""),
    "manifests_when": am.get("manifests_when", ""),
    "demo": "seed_demo*_test.go.txt in this directory (drop into the package named in its package clause, without .txt)",
    "agent_report": am.get("checked", ""),
    "confirmed_by_me": {
        "how": "tools/seedverify.sh in the agent's scratch worktree: clean checkout + patch, go build, whole suite with the demo moved aside, demo with the patch, demo with the patch reverted (-count=3)",
        "result": conf,
    },
    "notes": open(f"{d}/notes.txt").read().strip() if os.path.exists(f"{d}/notes.txt") else "",
    "checks_run": checks,
    "caught": any(c["exit"] == 1 and c["violation_lines"] > 0 for c in checks),
    "caught_with_failing_input": any(c["exit"] == 1 and any("FAILURE" in o for o in c["output"]) for c in checks),
}
json.dump(meta, open(f"{d}/meta.json", "w"), indent=1)
print(sid, "caught" if meta["caught"] else "MISSED", [ (c["check"], c["exit"]) for c in checks])
