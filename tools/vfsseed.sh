#!/bin/sh
# usage: tools/vfsseed.sh /verif/seeded/<id> ...   (absolute paths)
# measures what the engine vfs tie (DESIGN 14.9) alone sees of a stored change: applies the patch to /repo, builds the harness,
# runs 300 engine programs, pipes the trace through the Lean driver and counts the mismatches on `vfs` lines; undoes the patch.
# for each seed: apply, build vh, run engine 300 programs, count driver mismatches that mention vfs
export GOFLAGS=-mod=mod GOPROXY=off GOSUMDB=off GOTOOLCHAIN=local
for d in "$@"; do
  id=$(basename $d)
  cd /repo; git diff --quiet || { echo dirty; exit 2; }
  git apply $d/patch.diff 2>/dev/null || { echo "$id: patch does not apply"; continue; }
  (cd /verif/harness && go build -tags verif -o /tmp/vh_seed ./cmd/vh 2>/dev/null) || { echo "$id: no build"; git checkout -- .; continue; }
  timeout 120 /tmp/vh_seed engine -n 300 -seed 1 -hang 10 -trace /tmp/vs.trace -out /tmp/vs.json >/dev/null 2>&1
  o=$(/verif/lean/.lake/build/bin/driver engine < /tmp/vs.trace)
  echo "$id: vfs-mismatch=$(echo "$o" | grep -c 'MISMATCH.*vfs:') other-mismatch=$(echo "$o" | grep 'MISMATCH' | grep -vc 'vfs:') $(echo "$o" | grep -m1 'vfs:' | cut -c1-200)"
  git checkout -- .
done
rm -f /tmp/vh_seed /tmp/vs.trace /tmp/vs.json
