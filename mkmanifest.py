#!/usr/bin/env python3
"""Regenerates MANIFEST.json from checks_table.py (claims) so the two never drift apart."""
import json, subprocess, sys
sys.path.insert(0, '.')
from checks_table import PROPS
from claims import CLAIMS, NOT_APPLICABLE

props = [json.loads(l)["id"] for l in open("properties.jsonl")]
hook_commit = "7d734f7"
m = {
 "version": 1,
 "setup_cmd": "./setup.sh",
 "hooks": {
  "guard": "verif",
  "enable": "go build -tags verif (the harness module /verif/harness replaces github.com/elastic/go-txfile by /repo); hook files: verif_hooks.go, verif_on.go (tag verif), verif_off.go (no-op trace point without the tag); call sites of verifPoint are added lines only",
  "baseline_off_cmd": "cd /repo && GOFLAGS=-mod=mod GOPROXY=off GOSUMDB=off go test -vet=off -count=1 ./...",
  "source_commits": [hook_commit],
  "add_only": True
 },
 "engines": [
  {"name": "lean-model", "path": "lean", "serves_properties": sorted(PROPS),
   "kind_free_text": "Lean 4 (core only) executable model of go-txfile (codecs, allocator, engine, lock protocol, crash protocol, isolation, queue layout) with one theorem file per property (TxVerif/Props), regenerated source facts (TxVerif/Gen/Facts.lean) with tie theorems (TxVerif/Tie), and a compiled line-protocol driver (Main.lean) that replays traces of the implementation on the model"},
  {"name": "verifharness", "path": "harness", "serves_properties": sorted(PROPS),
   "kind_free_text": "Go harness (build tag verif) running the real code on a simulated disk: annotated traces for the model driver (correspondence) and property oracles used to search for failing inputs (spec store, crash-image enumeration, fault plans, controlled schedules, misuse matrix, header corruption, queue FIFO/space/counters)"}
 ],
 "checks": [],
 "notes": "Every check: rebuilds the harness against /repo's working tree, regenerates Gen/Facts.lean from the sources, builds the property's Lean modules, audits axioms (#print axioms) and forbidden constructs, runs the implementation and pipes its traces through the model driver, runs the oracles. VIOLATION lines end with no-failing-input-found when only a proof obligation / tie / correspondence broke.",
 "not_applicable": []
}
for pid in props:
    if pid in PROPS and pid in CLAIMS:
        c = CLAIMS[pid]
        m["checks"].append({
            "property_id": pid,
            "quick_cmd": f"./check {pid} quick",
            "thorough_cmd": f"./check {pid} thorough",
            "evidence_file": f"evidence/{pid}.json",
            "replay_cmd_template": "./check replay {path}",
            "engine": "lean-model",
            "level_claimed": {"category": "proof", "text": c["text"], "design_ref": f"DESIGN.md section 7 {pid} and section 14"},
            "level_note": c["note"],
            "technique": c["technique"],
        })
    else:
        m["not_applicable"].append({"property_id": pid, "reason": NOT_APPLICABLE.get(pid, "check not built yet (build in progress)")})
json.dump(m, open("MANIFEST.json", "w"), indent=1)
print("checks:", [c["property_id"] for c in m["checks"]], "n/a:", [x["property_id"] for x in m["not_applicable"]])
